"""A-RANGE: local integer range discharge over MIR (used for the decoder cone only).

range_of_operand gives a sound interval for an operand from its def chain (constants, zero-extending
casts, masks, shifts by constants, negation), clipped to the operand's type.  guard_refine adds facts
from dominating comparisons on the *same place* with no intervening write.
"""
INT_TYPES = {
    'u8': (0, 2**8 - 1), 'u16': (0, 2**16 - 1), 'u32': (0, 2**32 - 1), 'u64': (0, 2**64 - 1), 'usize': (0, 2**64 - 1),
    'u128': (0, 2**128 - 1),
    'i8': (-2**7, 2**7 - 1), 'i16': (-2**15, 2**15 - 1), 'i32': (-2**31, 2**31 - 1), 'i64': (-2**63, 2**63 - 1),
    'isize': (-2**63, 2**63 - 1), 'i128': (-2**127, 2**127 - 1), 'bool': (0, 1),
}


def ty_range(ty):
    return INT_TYPES.get(ty)


def clip(r, t):
    if r is None:
        return t
    if t is None:
        return r
    lo, hi = max(r[0], t[0]), min(r[1], t[1])
    if lo > hi:
        return t
    return (lo, hi)


def place_key(p):
    """hashable identity of a place (locals + field names + deref), None when it involves a dynamic index"""
    out = [p['l']]
    for x in p['pr']:
        if x == '*':
            out.append('*')
        elif 'f' in x:
            out.append(('f', x['f']))
        elif 'dc' in x:
            out.append(('dc', x['dc']))
        elif 'ci' in x:
            out.append(('ci', x['ci'], x.get('from_end', False)))
        else:
            return None
    return tuple(out)


class Ranges:
    def __init__(self, body):
        self.b = body
        self.memo = {}

    def operand_ty(self, o):
        if o['k'] in ('copy', 'move'):
            return o['p']['ty']
        return o.get('ty')

    def of_operand(self, o, stack=()):
        t = ty_range(self.operand_ty(o))
        if o['k'] == 'const':
            if 'int' in o:
                return (o['int'], o['int'])
            if 'bool' in o:
                v = 1 if o['bool'] else 0
                return (v, v)
            return t
        if o['k'] in ('copy', 'move'):
            p = o['p']
            if not p['pr']:
                return clip(self.of_local(p['l'], stack), t)
            # tuple field .0 of a checked op result
            if len(p['pr']) == 1 and isinstance(p['pr'][0], dict) and p['pr'][0].get('f') == 0:
                ds = self.b.whole_defs(p['l'])
                if len(ds) == 1 and ds[0][1] == 'assign' and ds[0][2]['r']['k'] == 'bin' and \
                        ds[0][2]['r']['op'].endswith('WithOverflow'):
                    return t
            return t
        return t

    def of_local(self, l, stack=()):
        if l in self.memo:
            return self.memo[l]
        t = ty_range(self.b.local_ty(l))
        if l in stack or self.b.is_arg(l):
            return t
        ds = self.b.whole_defs(l)
        if not ds or len(ds) != len(self.b.defs(l)):
            return t
        res = None
        for pt, k, s in ds:
            if k == 'call' and (s.get('callee') or {}).get('name') in ('from', 'into') and len(s.get('args') or []) == 1 \
                    and ty_range(self.operand_ty(s['args'][0])) is not None and t is not None:
                # a lossless integer conversion (`i64::from(x)`): the value is the argument's
                src = self.of_operand(s['args'][0], stack + (l,))
                st_ = ty_range(self.operand_ty(s['args'][0]))
                r = src if src is not None else st_
                if r is not None and t[0] <= r[0] and r[1] <= t[1]:
                    res = r if res is None else (min(res[0], r[0]), max(res[1], r[1]))
                    continue
                return t
            if k != 'assign':
                # call of a crate-local function: the (context-insensitive) range of what it returns
                c = s.get('callee') if k == 'call' else None
                cb = self.b.facts.body(c.get('resolved') or c['path']) if (c and self.b.facts is not None) else None
                if cb is None or cb.key == self.b.key or cb.key in getattr(self, '_callstack', ()):
                    return t
                sub = Ranges(cb)
                sub._callstack = getattr(self, '_callstack', ()) + (self.b.key,)
                r = sub.of_local(0)
                if r is None:
                    return t
                res = r if res is None else (min(res[0], r[0]), max(res[1], r[1]))
                continue
            r = self.of_rvalue(s['r'], stack + (l,))
            if r is None:
                return t
            res = r if res is None else (min(res[0], r[0]), max(res[1], r[1]))
        res = clip(res, t)
        self.memo[l] = res
        return res

    def of_rvalue(self, r, stack):
        k = r['k']
        if k == 'use':
            return self.of_operand(r['o'], stack)
        if k == 'cast' and r['ck'] == 'IntToInt':
            src = self.of_operand(r['o'], stack)
            dst = ty_range(r['ty'])
            if src is None or dst is None:
                return dst
            if src[0] >= dst[0] and src[1] <= dst[1]:
                return src          # value-preserving
            return dst
        if k == 'bin':
            a = self.of_operand(r['a'], stack)
            b = self.of_operand(r['b'], stack)
            op = r['op']
            if a is None or b is None:
                return None
            if op == 'BitAnd':
                # x & c with c >= 0  ->  [0, c]
                c = None
                if b[0] == b[1] and b[0] >= 0:
                    c = b[0]
                if a[0] == a[1] and a[0] >= 0:
                    c = a[0] if c is None else min(c, a[0])
                if c is not None:
                    return (0, c)
                if a[0] >= 0 and b[0] >= 0:
                    return (0, min(a[1], b[1]))
                return None
            if op == 'Shr' and b[0] == b[1] and 0 <= b[0] < 128:
                return (a[0] >> b[0], a[1] >> b[0])
            if op in ('Lt', 'Le', 'Gt', 'Ge', 'Eq', 'Ne'):
                return (0, 1)
            if op in ('Add', 'AddUnchecked'):
                return (a[0] + b[0], a[1] + b[1])
            if op in ('Sub', 'SubUnchecked'):
                return (a[0] - b[1], a[1] - b[0])
            return None
        if k == 'un' and r['op'] == 'Neg':
            a = self.of_operand(r['o'], stack)
            if a is None:
                return None
            return (-a[1], -a[0])
        return None


def writes_to(body, key, pt_from, pt_to):
    """is there, on some path from pt_from to pt_to that does not revisit pt_from's block, a write to the place `key`
    (or a call that receives a mutable reference to its base)?  Conservative: returns True when unsure."""
    b1, i1 = pt_from
    b2, i2 = pt_to
    # blocks strictly between
    fwd = set()
    st = list(body.succs(b1)) if b1 != b2 else []
    while st:
        x = st.pop()
        if x in fwd or x == b1:
            continue
        fwd.add(x)
        st.extend(body.succs(x))
    if b1 != b2 and b2 not in fwd:
        return True
    back = set()
    st = [b2] if b1 != b2 else []
    while st:
        x = st.pop()
        if x in back or x == b1:
            continue
        back.add(x)
        st.extend(body.preds(x))
    region = fwd & back
    base = key[0]

    def stmt_writes(s):
        if s['k'] == 'assign':
            pk = place_key(s['p'])
            if s['p']['l'] == base and (pk is None or pk == key or key[:len(pk)] == pk or pk[:len(key)] == key):
                return True
            if s['r']['k'] == 'ref' and s['r']['m'] == 'mut' and s['r']['p']['l'] == base:
                return True
        elif s['k'] == 'call':
            if s['dest']['l'] == base:
                return True
            for a in s['args']:
                if a['k'] in ('move', 'copy') and a['p']['l'] == base and not a['p']['pr'] and \
                        body.local_ty(base).startswith('&mut'):
                    return True
        elif s['k'] == 'drop' and s['p']['l'] == base:
            return True
        return False

    def scan(bb, lo, hi):
        stmts = body.stmts(bb)
        items = stmts + [body.term(bb)]
        for i in range(lo, min(hi, len(items))):
            if stmt_writes(items[i]):
                return True
        return False
    if b1 == b2:
        return scan(b1, i1 + 1, i2)
    if scan(b1, i1 + 1, 10**9):
        return True
    for x in region:
        if x == b2:
            if scan(b2, 0, i2):
                return True
        elif scan(x, 0, 10**9):
            return True
    return False


def dominating_upper_bounds(body, place, pt):
    """strict upper bounds c such that `place < c` is established by a branch dominating pt, with no write to the
    place between the compared read and pt"""
    key = place_key(place)
    if key is None:
        return []
    out = []
    doms = body.dom().get(pt[0], set())
    for d in doms:
        t = body.term(d)
        if t['k'] != 'switch' or t['d']['k'] not in ('copy', 'move') or t['d']['p']['pr']:
            continue
        cl = t['d']['p']['l']
        ds = body.whole_defs(cl)
        if len(ds) != 1 or ds[0][1] != 'assign' or ds[0][2]['r']['k'] != 'bin':
            continue
        cpt, _, cs = ds[0]
        r = cs['r']
        if r['op'] not in ('Lt', 'Le') or r['b']['k'] != 'const' or 'int' not in r['b']:
            continue
        bound = r['b']['int'] + (1 if r['op'] == 'Le' else 0)
        # lhs must be a copy of the same place
        a = r['a']
        src_pt = cpt
        if a['k'] in ('copy', 'move') and not a['p']['pr']:
            dd = body.whole_defs(a['p']['l'])
            if len(dd) == 1 and dd[0][1] == 'assign' and dd[0][2]['r']['k'] == 'use' and \
                    dd[0][2]['r']['o']['k'] in ('copy', 'move'):
                a = dd[0][2]['r']['o']
                src_pt = dd[0][0]
        if a['k'] not in ('copy', 'move') or place_key(a['p']) != key:
            continue
        # pt must be reachable only through the true edge
        true_targets = [x[1] for x in t['targets'] if x[0] != 0] + ([t['otherwise']] if all(x[0] == 0 for x in t['targets']) else [])
        false_targets = [x[1] for x in t['targets'] if x[0] == 0]
        if not true_targets:
            continue
        tt = true_targets[0]
        if tt in false_targets:
            continue
        if not (tt == pt[0] or tt in body.dom().get(pt[0], set())):
            continue
        if len(body.preds(tt)) != 1:
            continue
        if writes_to(body, key, src_pt, pt):
            continue
        out.append(bound)
    return out
