#!/usr/bin/env python3
"""dev helper: pretty-print MIR facts of bodies whose path contains argv[2]"""
import sys, os, json
sys.path.insert(0, os.path.dirname(os.path.dirname(os.path.abspath(__file__))))
from rsv.ir import Facts, place_str, op_str
f = Facts(sys.argv[1])
for b in f.body_list:
    if sys.argv[2] in b.key:
        print('=====', b.key, b.span(), {k: b.d.get(k) for k in ('impl_adt', 'impl_trait', 'derived', 'parent')})
        for i, l in enumerate(b.locals):
            print('  _%d: %s %s' % (i, l['ty'][:140], l.get('name') or ''))
        for bi, bl in enumerate(b.blocks):
            print(' bb%d%s' % (bi, ' (cleanup)' if bl['cleanup'] else ''))
            for s in bl['stmts']:
                if s['k'] == 'assign':
                    r = s['r']
                    d = ' '.join('%s=%s' % (k, place_str(v) if k == 'p' else op_str(v) if k in ('o', 'a', 'b') else [op_str(x) for x in v] if k == 'ops' else v) for k, v in r.items() if k not in ('from_ty',))
                    print('    %s = %s   @%s' % (place_str(s['p']), d, s['s'].split('/')[-1]))
                else:
                    print('   ', {k: v for k, v in s.items()})
            t = bl['term']
            if t['k'] == 'call':
                c = t.get('callee') or {}
                print('    CALL %s [%s] (%s) -> %s  t=%s u=%s  @%s' % (c.get('path', t.get('fty', '?')[:60]), c.get('resolved', ''), ', '.join(op_str(a) for a in t['args']), place_str(t['dest']), t['t'], t['u'], t['s'].split('/')[-1]))
            elif t['k'] == 'switch':
                print('    SWITCH %s %s else %s' % (op_str(t['d']), t['targets'], t['otherwise']))
            elif t['k'] == 'assert':
                print('    ASSERT %s==%s %s -> %s' % (op_str(t['c']), t['exp'], {k: (op_str(v) if isinstance(v, dict) else v) for k, v in t['msg'].items()}, t['t']))
            elif t['k'] == 'drop':
                print('    DROP %s -> %s u=%s' % (place_str(t['p']), t['t'], t['u']))
            else:
                print('    %s %s' % (t['k'].upper(), t.get('t', '')))
