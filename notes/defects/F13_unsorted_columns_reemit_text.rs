// F13: a SourceMapSource whose map has segments with decreasing generated columns on one line
// streams text that does not reassemble to source() (columns = true).
use rspack_sources::{stream_chunks::stream_chunks_default, MapOptions, Source, SourceMap, SourceMapSource, SourceMapSourceOptions};

#[test]
fn unsorted_columns_reassemble() {
  let text = "abcdefghij\nxyz";
  let map = SourceMap::from_json(
    r#"{"version":3,"sources":["a.js"],"sourcesContent":["abcdefghij\nxyz"],"names":[],"mappings":"KAAA,HAAG"}"#,
  )
  .unwrap();
  let s = SourceMapSource::new(SourceMapSourceOptions {
    value: text,
    name: "a.js",
    source_map: map,
    original_source: None,
    inner_source_map: None,
    remove_original_source: false,
  });
  let mut out = String::new();
  let boxed = rspack_sources::SourceExt::boxed(s);
  use rspack_sources::stream_chunks::StreamChunks;
  boxed.stream_chunks(
    &MapOptions::default(),
    &mut |chunk, _m| {
      if let Some(c) = chunk {
        out.push_str(&c.to_string());
      }
    },
    &mut |_, _, _| {},
    &mut |_, _| {},
  );
  assert_eq!(out, boxed.source());
}
