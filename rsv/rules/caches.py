"""Cache discipline rules: WRITEONCE, KEY, MEMO, CACHE-BORROW, FROZEN-BORROW  (C10, C14, C18, C19, C20)."""
from ..core import RuleResult
from ..ir import access_paths, walk, strip
from .. import anchors
from .replace_cache import groups, expr_mentions_field, _group_info

NARROW = {'deref', 'as_ref', 'borrow'}

# (receiver type head, method) allow-list for everything dashmap in the crate
DASH_ALLOWED = {
    'DashMap': {'get', 'contains_key', 'len', 'is_empty', 'entry', 'iter', 'hasher', 'capacity'},
    'OccupiedEntry': {'get', 'key'},
    'VacantEntry': {'insert', 'insert_entry', 'key', 'into_key'},
    'Entry': {'or_insert', 'or_insert_with', 'or_default', 'or_try_insert_with', 'key', 'or_insert_with_key'},
    'Ref': {'key', 'value', 'pair', 'deref'},
    'RefMut': {'key', 'value', 'pair', 'deref', 'downgrade'},
}
DASH_WHY = {
    'insert': 'overwrites (and drops) an existing entry',
    'remove': 'removes an entry', 'clear': 'removes entries', 'retain': 'removes entries',
    'alter': 'rewrites an entry', 'alter_all': 'rewrites entries', 'get_mut': 'hands out a mutable reference to a cached value',
    'iter_mut': 'hands out mutable references to cached values', 'replace_entry': 'replaces an entry',
    'deref_mut': 'mutable access to a cached value', 'value_mut': 'mutable access to a cached value',
}


def dash_head(ty):
    """type head of a dashmap type mentioned in a receiver type string"""
    for h in ('OccupiedEntry', 'VacantEntry', 'mapref::entry::Entry', 'RefMut', 'mapref::one::Ref', 'DashMap'):
        if h in ty:
            return h.rsplit('::', 1)[-1]
    return None


def rule_writeonce(ctx):
    f = ctx.facts()
    r = RuleResult('WRITEONCE', 'once a map has been cached for an option set it is never removed or replaced: the only '
                                'writers of the map cache are first-writers (VacantEntry::insert / Entry::or_insert*); '
                                'the hash cache is written through get_or_init only')
    r.floor = 4
    r.assumptions.append('dashmap contract: VacantEntry::insert / Entry::or_insert* never overwrite; entry() holds the shard lock')
    A = anchors.cached_source(f)
    # 1. every call on a dashmap type anywhere in the crate
    for b in f.body_list:
        if b.promoted is not None:
            continue
        for pt, t in b.calls():
            c = t.get('callee')
            if not c or not t['args']:
                continue
            impl_by_dashmap = c.get('crate') == 'dashmap' or 'dashmap::' in (c.get('resolved_impl_self') or '') \
                or 'dashmap::' in (c.get('impl_self') or '')
            rty = t['arg_tys'][0]
            # Arc<DashMap> clone/deref are implemented by std for Arc: keep them as sharing sites
            arc_dash = rty.replace('&', '').strip().startswith('std::sync::Arc<dashmap::') and c['name'] in ('clone', 'deref')
            if not (impl_by_dashmap or arc_dash) or 'dashmap::' not in rty:
                continue
            head = dash_head(rty)
            n = c.get('name')
            if head is None:
                continue
            if n in ('clone', 'drop', 'fmt', 'default', 'new', 'with_hasher') or (n == 'deref' and 'Arc<' in rty.split('dashmap::')[0]):
                # Arc<DashMap> clone/deref: sharing, not writing
                r.site('%s: %s::%s (sharing/view)' % (b.path, head, n), t['s'], 'ok')
                continue
            ok = n in DASH_ALLOWED.get(head, set())
            r.site('%s: %s::%s' % (b.path, head, n), t['s'], 'ok' if ok else 'violation')
            if not ok:
                r.violation('%s:dashmap::%s::%s' % (b.path, head, n), t['s'], b.path,
                            'call of %s::%s on the map cache: %s; entries are lent out for the stream lifetime '
                            '(see CACHE-BORROW), so this is a use-after-free under concurrency and breaks '
                            '"never removed or replaced"' % (head, n, DASH_WHY.get(n, 'not a reader or first-writer (allow-list)')),
                            callee=c.get('path'), allowed=sorted(DASH_ALLOWED.get(head, [])))
    # 2. the cache fields are assigned only by construction (aggregates), never reassigned
    for fld in (A['cached_maps'], A['cached_hash']):
        for b in f.body_list:
            for pt, role, pl, node, rest in b.field_accesses(A['adt'], fld):
                if role in ('write', 'mutref', 'drop') :
                    r.site('%s writes field %s' % (b.path, fld), node.get('s', b.span()), 'violation')
                    r.violation('%s:field-write:%s' % (b.path, fld), node.get('s', b.span()), b.path,
                                'the cache field itself is reassigned / mutably borrowed: previously lent-out entries die')
    # 3. hash cell: get_or_init only
    for b in f.body_list:
        for pt, t in b.calls():
            c = t.get('callee')
            if not c or not t['args']:
                continue
            e = b.expr_of_operand(t['args'][0])
            hit = False
            for root, fs in access_paths(e, through_calls=NARROW):
                if fs and fs[-1] == A['cached_hash']:
                    hit = True
            if not hit:
                continue
            n = c['name']
            ok = n in ('get_or_init', 'get', 'clone', 'deref')
            r.site('%s: hash cell .%s' % (b.path, n), t['s'], 'ok' if ok else 'violation')
            if not ok:
                r.violation('%s:hash-cell:%s' % (b.path, n), t['s'], b.path,
                            'the memoised hash cell is accessed through `%s` (only get/get_or_init/clone are write-once)' % n)
    # 4. not exposed: no public function signature mentions the cache types
    for b in f.body_list:
        if b.d.get('pub') and b.d.get('impl_adt') == A['adt'] and 'DashMap' in b.d.get('sig', '').split('->')[-1]:
            r.violation('%s:exposes-cache' % b.path, b.span(), b.path, 'public function returns the map cache')
    r.check_floor()
    return r


def _options_params(b):
    return [i for i in range(1, b.arg_count + 1) if 'MapOptions' in b.local_ty(i)]


def rule_key(ctx):
    f = ctx.facts()
    r = RuleResult('KEY', 'the map cache is keyed by the caller\'s full option set and the value stored under a key was '
                          'computed with those same options (results cached for one column setting are never served for the other)')
    r.floor = 3
    A = anchors.cached_source(f)
    mo = anchors.adt_by_name(f, 'MapOptions')
    for b in f.body_list:
        if b.promoted is not None:
            continue
        rootb = f.body(b.d.get('root') or b.path) or b
        opts = _options_params(rootb)
        rkey = rootb.key
        for pt, t in b.calls():
            c = t.get('callee')
            if not c or not t['args'] or c.get('crate') != 'dashmap':
                continue
            n = c['name']
            head = dash_head(t['arg_tys'][0]) if 'dashmap::' in t['arg_tys'][0] else None
            if head == 'DashMap' and n in ('get', 'entry', 'insert', 'contains_key', 'get_mut', 'remove'):
                key = b.expr_of_operand(t['args'][1])
                roots = [root for root, fs in access_paths(key, through_calls={'clone', 'borrow', 'deref', 'to_owned'}) if not fs]
                ok = bool(roots) and all(root[0] == 'arg' and root[3] == rkey and root[1] in opts for root in roots)
                r.site('%s: cache %s(key)' % (b.path, n), t['s'], 'ok' if ok else 'violation')
                if not ok:
                    r.violation('%s:key:%s' % (b.path, n), t['s'], b.path,
                                'cache accessed with a key that is not the function\'s own `options` argument: a request for '
                                'one column setting can be served the other\'s map')
            if head == 'DashMap' and n in ('iter', 'iter_mut', 'into_iter', 'retain', 'alter_all', 'view'):
                r.site('%s: cache traversed with `%s`' % (b.path, n), t['s'], 'violation')
                r.violation('%s:traverse:%s' % (b.path, n), t['s'], b.path,
                            'the map cache is traversed (`%s`) instead of being read under the caller\'s own option set: an answer cached '
                            'for one column setting can decide the answer for the other' % n)
            if (head in ('VacantEntry', 'Entry') and n in ('insert', 'or_insert', 'insert_entry')) or \
               (head == 'DashMap' and n == 'insert'):
                val = b.expr_of_operand(t['args'][-1])
                ok = False
                for x in walk(val):
                    if x[0] == 'call':
                        for a in x[2]:
                            for root, fs in access_paths(a, through_calls={'clone', 'borrow', 'deref'}):
                                if root[0] == 'arg' and root[3] == rkey and root[1] in opts and not fs:
                                    ok = True
                r.site('%s: cached value computed from the same options' % b.path, t['s'], 'ok' if ok else 'violation')
                if not ok:
                    r.violation('%s:value-options' % b.path, t['s'], b.path,
                                'the value stored in the cache is not computed by a call that receives the same `options`')
    # MapOptions Eq + Hash must be derived (cover columns and final_source)
    for tr in ('std::cmp::PartialEq', 'std::hash::Hash'):
        im = [i for i in f.impls if i.get('self_adt') == mo['path'] and i.get('trait') == tr]
        ok = len(im) == 1 and im[0]['derived']
        r.site('MapOptions: %s derived (covers every field)' % tr, mo['span'], 'ok' if ok else 'violation')
        if not ok:
            r.violation('MapOptions:%s' % tr, mo['span'], mo['path'],
                        'MapOptions\' %s is not the derived one: a hand-written impl may ignore a field of the key' % tr)
    r.check_floor()
    return r


def _cell_param_ok(f, hb, param, depth=0):
    """helper function hb receives a memo cell as parameter `param`: every use of it must be get/get_or_init/clone/deref (or a
    further such helper); returns (ok, [(call term, initialiser closure body)])"""
    inits = []
    if depth > 2:
        return False, inits
    for pt, t in hb.calls():
        c = t.get('callee')
        if not c:
            continue
        for ai, a in enumerate(t['args']):
            e = hb.expr_of_operand(a)
            if not any(root[0] == 'arg' and root[1] == param and root[3] == hb.key and not fs
                       for root, fs in access_paths(e, through_calls=NARROW)):
                continue
            n = c['name']
            if n in ('get_or_init', 'get', 'clone', 'deref'):
                if n == 'get_or_init' and ai == 0 and len(t['args']) > 1:
                    cl = None
                    for x in walk(hb.expr_of_operand(t['args'][1])):
                        if x[0] == 'agg' and x[1] == 'closure':
                            cl = f.body(x[2])
                    inits.append((t, cl))
                continue
            nb = f.body(c.get('resolved') or c['path'])
            if nb is not None and nb.d['kind'] != 'Closure':
                ok2, in2 = _cell_param_ok(f, nb, ai + 1, depth + 1)
                if ok2:
                    inits += in2
                    continue
            return False, inits
    return True, inits


def rule_memo(ctx):
    """MEMO: memo cells are pure caches"""
    f = ctx.facts()
    r = RuleResult('MEMO', 'lazily filled cells are pure memo caches: only get/get_or_init/clone are applied to them, every '
                           'initialiser reads only data fields of the same object and all initialisers of a cell agree, and no '
                           'PartialEq/Hash body observes cache state except through such an accessor')
    r.floor = 6
    cells = anchors.once_string_cells(f)
    C = anchors.cached_source(f)
    cells_all = [(a, fl, 'string') for a, fl in cells] + [(C['adt'], C['cached_hash'], 'hash')]
    for p_ in anchors.source_types(f):
        for fl_ in anchors.fields(f.adts[p_]):
            sh = fl_['shape']
            inner = anchors.shape_arg(sh) if anchors.shape_is(sh, 'sync::Arc') else sh
            if isinstance(inner, dict) and (inner.get('adt', '').endswith('OnceLock') or inner.get('adt', '').endswith('OnceCell')):
                if not any(a == p_ and x == fl_['name'] for a, x, _ in cells_all):
                    cells_all.append((p_, fl_['name'], 'memo'))
    cache = anchors.cache_fields(f)
    cache_set = {(a, fl) for a, fl, _ in cache}
    R = anchors.replace_source(f)
    info = _group_info(f, R)
    sorters = {root for root, d in info.items() if d['index_writes'] and d['flag_true']}
    accessors = set(sorters)
    for root, d in info.items():
        if d['locks_index'] and any(any(ct['callee'].get('path', '').replace('::<T>', '') == s.replace('::<T>', '')
                                        for s in sorters) for _, _, ct in d['calls']):
            accessors.add(root)
    # (i) operations applied to a cell
    inits = {}
    for b in f.body_list:
        if b.promoted is not None:
            continue
        for pt, t in b.calls():
            c = t.get('callee')
            if not c or not t['args']:
                continue
            for ai, a in enumerate(t['args'][:2]):
                e = b.expr_of_operand(a)
                for root, fs in access_paths(e, through_calls=NARROW):
                    for (adt, fl, kind) in cells_all:
                        if fs and fs[-1] == fl and expr_mentions_field(e, fl, adt):
                            n = c['name']
                            ok = n in ('get_or_init', 'get', 'clone', 'deref', 'default')
                            hb = f.body(c.get('resolved') or c['path'])
                            if not ok and hb is not None and hb.d['kind'] != 'Closure':
                                # a crate-local helper that receives the cell: it must itself only apply the allowed operations
                                hok, hinits = _cell_param_ok(f, hb, ai + 1)
                                if hok:
                                    ok = True
                                    for ht, hcl in hinits:
                                        inits.setdefault((adt, fl), []).append((hb, ht, hcl))
                            r.site('%s: cell %s.%s used by `%s`' % (b.path, adt.rsplit('::', 1)[-1], fl, n), t['s'],
                                   'ok' if ok else 'violation')
                            if not ok:
                                r.violation('%s:%s.%s:%s' % (b.path, adt, fl, n), t['s'], b.path,
                                            'memo cell used through `%s`: equality/hash/order or mutation of the cell itself makes '
                                            'the value depend on whether an observer ran (history dependence)' % n,
                                            callee=c.get('resolved') or c.get('path'))
                            if n == 'get_or_init' and ai == 0:
                                cl = None
                                for x in walk(b.expr_of_operand(t['args'][1])):
                                    if x[0] == 'agg' and x[1] == 'closure':
                                        cl = f.body(x[2])
                                inits.setdefault((adt, fl), []).append((b, t, cl))
    # (ii) initialisers
    for (adt, fl), lst in inits.items():
        sigs = []
        for b, t, cl in lst:
            if cl is None:
                r.site('initialiser of %s.%s in %s' % (adt, fl, b.path), t['s'], 'violation')
                r.violation('%s:%s.%s:init' % (b.path, adt, fl), t['s'], b.path, 'initialiser is not a closure literal (unrecognised idiom)',
                            reason='unrecognised-idiom')
                continue
            bad = []
            for pt, role, pl, node in cl.places():
                for x in pl['pr']:
                    if isinstance(x, dict) and x.get('o') in f.adts and (x['o'], x.get('n')) in cache_set:
                        bad.append(x.get('n'))
            callees = sorted(c2['callee'].get('dp', c2['callee']['path']) for _, c2 in cl.calls() if c2.get('callee'))
            sigs.append(tuple(callees))
            ok = not bad
            r.site('initialiser %s reads only data fields' % cl.path, cl.span(), 'ok' if ok else 'violation')
            if not ok:
                r.violation('%s:init-reads-cache' % cl.path, cl.span(), cl.path,
                            'memo initialiser reads cache state (%s): the memoised value is not a function of the data' % bad)
        ok = len(set(sigs)) <= 1
        r.site('all %d initialisers of %s.%s agree' % (len(lst), adt.rsplit('::', 1)[-1], fl), lst[0][1]['s'], 'ok' if ok else 'violation')
        if not ok:
            r.violation('%s.%s:init-disagree' % (adt, fl), lst[0][1]['s'], adt,
                        'initialisers of the same memo cell call different functions: the cached value depends on which '
                        'observer ran first')
    # (iii) Eq / Hash bodies never read cache fields directly
    for b in f.body_list:
        if b.promoted is not None or b.d.get('impl_trait') not in ('std::cmp::PartialEq', 'std::hash::Hash', 'std::cmp::Eq',
                                                                   'std::cmp::PartialOrd', 'std::cmp::Ord'):
            continue
        adt = b.d.get('impl_adt')
        if adt not in f.adts:
            continue
        root = b.d.get('root') or b.path
        from .eqhash import cone as _cone
        members = [m for rt, ms in _cone(f, b, adt).items() if rt not in accessors for m in ms]
        for m_ in members:
          b_ = m_
          for pt, role, pl, node in b_.places():
            for i, x in enumerate(pl['pr']):
                  if isinstance(x, dict) and (x.get('o'), x.get('n')) in cache_set:
                      # allowed only as the receiver of get_or_init (checked in (i)) -> here: find how the borrow is used
                      fld = x['n']
                      ok = False
                      if node['k'] == 'assign' and node['r']['k'] == 'ref':
                          # the borrow (possibly through the Arc's deref and re-borrows) must end as the receiver of get_or_init:
                          # `get()` would show whether the cell has been filled
                          work, seen_l, finals = [node['p']['l']], set(), []
                          while work:
                              dest = work.pop()
                              if dest in seen_l:
                                  continue
                              seen_l.add(dest)
                              for pt2, t2 in b_.calls():
                                  if t2.get('callee') and t2['args'] and t2['args'][0]['k'] in ('move', 'copy') and \
                                     t2['args'][0]['p']['l'] == dest and not t2['args'][0]['p']['pr']:
                                      if t2['callee']['name'] in ('deref', 'as_ref', 'borrow'):
                                          work.append(t2['dest']['l'])
                                      else:
                                          finals.append(t2['callee']['name'])
                              for pt2, s2 in b_.points():
                                  if s2['k'] == 'assign' and not s2['p']['pr'] and s2['r']['k'] in ('ref', 'use'):
                                      src = s2['r']['p'] if s2['r']['k'] == 'ref' else (s2['r']['o'].get('p') if s2['r']['o']['k'] in ('copy', 'move') else None)
                                      if src is not None and src['l'] == dest and all(y == '*' for y in src['pr']):
                                          work.append(s2['p']['l'])
                          ok = bool(finals) and all(n_ == 'get_or_init' for n_ in finals)
                      r.site('%s touches cache field %s' % (b.path, fld), node.get('s', b_.span()), 'ok' if ok else 'violation')
                      if not ok:
                          r.violation('%s:reads-cache:%s' % (b.path, fld), node.get('s', b_.span()), b.path,
                                      '%s reads cache field `%s` directly (not through a memo accessor): two equal values compare/hash '
                                      'differently depending on which observers were called' % (b.d.get('impl_trait'), fld),
                                      derived=b.d.get('derived'))

    r.check_floor()
    return r


def rule_encode_all(ctx):
    """ENCODE-ALL: sibling collectors agree — every mapping a map-collecting callback sees is fed to the encoder"""
    from .streams import closure_kind
    f = ctx.facts()
    r = RuleResult('ENCODE-ALL', 'every function that collects a SourceMap from a chunk stream (map(), and the tee that fills the cache while '
                                 'streaming) feeds every mapping it sees to the mappings encoder unconditionally, so the cached map equals '
                                 'what map() of the wrapped source encodes')
    r.floor = 2
    mp = anchors.adt_by_name(f, 'Mapping')['path']
    for b in f.body_list:
        if b.promoted is not None or b.d['kind'] != 'Closure' or closure_kind(b) != 'chunk':
            continue
        enc = []
        for pt, t in b.calls():
            c = t.get('callee')
            if c and c['name'] == 'encode' and c.get('local') and len(t['args']) == 2 and mp in t['arg_tys'][1]:
                enc.append((pt, t))
        if not enc:
            continue
        ok = False
        for pt, t in enc:
            roots = [x for x in strip(b.expr_of_operand(t['args'][1]), through_calls=set())]
            from_param = any(x[0] == 'arg' and x[1] == 3 and x[3] == b.key for x in roots)
            if from_param and b.postdominates(pt, (0, 0)):
                ok = True
        r.site('%s: collector encodes every mapping it receives' % b.path, enc[0][1]['s'], 'ok' if ok else 'violation')
        if not ok:
            r.violation('%s:conditional-encode' % b.path, enc[0][1]['s'], b.path,
                        'this collector feeds the mappings encoder only on some paths (or not with the mapping it received): segments '
                        'that close an active mapping are lost, so the collected (cached) map attributes positions differently from map()')
    r.check_floor()
    return r


def rule_memo_reset(ctx):
    """MEMO-RESET: whoever mutates the data a memo cell is computed from must reset the cell"""
    f = ctx.facts()
    r = RuleResult('MEMO-RESET', 'a memo cell never outlives the data it was computed from: every function that mutates a data field of a '
                                 'type holding OnceLock/OnceCell memo cells resets each of them on all paths after the mutation '
                                 '(ReplaceSource\'s sorted-flag pair is RESET\'s business)')
    r.floor = 0
    cache = anchors.cache_fields(f)
    by_adt = {}
    for a, fl, ty in cache:
        if 'OnceLock' in ty or 'OnceCell' in ty:
            by_adt.setdefault(a, []).append(fl)
    from .eqhash import data_fields
    for adt, cells in sorted(by_adt.items()):
        dfl = data_fields(f, adt) or []
        for b in f.body_list:
            if b.promoted is not None:
                continue
            muts = [(pt, node, fld) for fld in dfl for pt, role, pl, node, rest in b.field_accesses(adt, fld)
                    if role in ('mutref', 'write', 'drop')]
            if not muts:
                continue
            for cell in cells:
                resets = [pt for pt, role, pl, node, rest in b.field_accesses(adt, cell) if role == 'write' and not rest]
                for pt, t in b.calls():
                    c = t.get('callee')
                    if c and c['name'] in ('take', 'get_mut') and t['args'] and \
                            expr_mentions_field(b.expr_of_operand(t['args'][0]), cell, adt) and c['name'] == 'take':
                        resets.append(pt)
                for pt, node, fld in muts:
                    ok = any(b.postdominates(rp, pt) for rp in resets)
                    site = node.get('s', b.span())
                    r.site('%s mutates %s.%s; memo cell %s is reset afterwards' % (b.path, adt.rsplit('::', 1)[-1], fld, cell), site,
                           'ok' if ok else 'violation')
                    if not ok:
                        r.violation('%s:%s' % (b.path, cell), site, b.path,
                                    'data field `%s` is mutated but memo cell `%s` is not reset on every path afterwards: the memoised answer '
                                    'goes stale (observe, mutate, observe)' % (fld, cell))
    r.site('census: %d types with memo cells, %d cells' % (len(by_adt), sum(len(v) for v in by_adt.values())), '(crate)', 'ok')
    return r


# ---------------------------------------------------------------- FILL-AGREE (round 10)
def rule_fill_agree(ctx):
    """every first-writer of the map cache stores what `inner.map(options)` answers (one producer per key)"""
    from ..ir import walk
    f = ctx.facts()
    r = RuleResult('FILL-AGREE', 'the map cache has one producer per key: every first-writer (VacantEntry::insert / Entry::or_insert*) of '
                                 'CachedSource\'s map cache stores the value `self.inner.map(options)` returned — a second producer under '
                                 'the same key (a map re-encoded from streamed chunks) makes map() depend on which call filled the cache '
                                 'whenever the wrapped source\'s map() is not itself re-encoded from its stream')
    A = anchors.cached_source(f)
    for b in f.body_list:
        if b.promoted is not None or b.d.get('impl_adt') != A['adt']:
            continue
        for pt, t in b.calls():
            c = t.get('callee')
            if not c or len(t['args']) < 2 or 'dashmap::' not in t['arg_tys'][0]:
                continue
            if c.get('name') not in ('insert', 'or_insert', 'or_insert_with', 'insert_entry'):
                continue
            e = b.expr_of_operand(t['args'][1])
            calls = [x for x in walk(e) if isinstance(x, tuple) and x and x[0] == 'call']
            # the producer: the outermost crate-level call the value comes from
            prod = None
            for x in calls:
                name = x[1].rsplit('::', 1)[-1]
                if name in ('clone', 'into', 'from', 'deref', 'as_ref'):
                    continue
                prod = x
                break
            ok = prod is not None and prod[1].rsplit('::', 1)[-1] == 'map' and 'Source' in prod[1]
            what = prod[1] if prod else 'no call'
            r.site('%s: cache filled with the result of `%s`' % (b.path, what), t['s'], 'ok' if ok else 'violation')
            if not ok:
                r.violation('%s:producer:%s' % (b.path, what.rsplit('::', 1)[-1]), t['s'], b.path,
                            'the map cache is filled under the caller\'s options with the result of `%s`, while map() fills the same key '
                            'with `inner.map(options)`: for a wrapped source whose map() returns a stored map (SourceMapSource without '
                            'inner map; an unedited ReplaceSource or Box around it) the two differ (file / sourceRoot dropped, lines-only '
                            'mappings for columns=false), so map() of equal CachedSources depends on whether stream_chunks ran first' % what)
    if not r.sites:
        raise anchors.AnchorMissing('no first-writer of the CachedSource map cache found')
    return r
