"""A-SCCP: conditional constant propagation over MIR under an assumption on `options.final_source`.

Analyses one *entry* function together with everything crate-local it can reach.  Per body it keeps the set of
reachable blocks and, per local, the set of constants it may hold (flow-insensitive per local, but only assignments in
*reachable* blocks count, and boolean locals captured by reference in closures are shared cells).  Fix-point over
(reachable blocks, value sets, callee contexts).
"""
TOP = None  # unknown


def join(a, b):
    if a is TOP or b is TOP:
        return TOP
    return a | b


class Sccp:
    def __init__(self, facts, entry, assume_final):
        """assume_final: set of possible values of final_source for the entry's options parameter, e.g. {False}"""
        self.f = facts
        self.entry = entry
        self.opt_adt = [a for a in facts.adts.values() if a['name'] == 'MapOptions'][0]['path']
        self.ctx = {}        # root body key -> {param index: value set} for &MapOptions params
        self.reach = {}      # body key -> set(bb)
        self.vals = {}       # (body key, local) -> value set (absent = bottom/empty)
        self.live_bodies = set()
        self._set_ctx(entry, {i: set(assume_final) for i in self.opt_params(entry)})
        self.run()

    # ---------------- helpers
    def opt_params(self, b):
        return [i for i in range(1, b.arg_count + 1) if b.locals[i].get('adt') == self.opt_adt and b.local_ty(i).startswith('&')]

    def root_of(self, b):
        return self.f.body(b.d.get('root') or b.path) or b

    def _set_ctx(self, b, m):
        cur = self.ctx.get(b.key)
        if cur is None:
            self.ctx[b.key] = {k: (set(v) if v is not TOP else TOP) for k, v in m.items()}
            self.changed = True
            return
        for k, v in m.items():
            n = join(cur.get(k, set()), v)
            if n != cur.get(k, set()):
                cur[k] = n
                self.changed = True

    def upvar_parent_local(self, b, place):
        """for a closure place (*((*_1).k)) / (_1.k) return (parent body, parent local, byref) or None"""
        pr = place['pr']
        if place['l'] != 1 or not pr:
            return None
        i = 0
        if pr[0] == '*':
            i = 1
        if i >= len(pr) or not (isinstance(pr[i], dict) and pr[i].get('upvar')):
            return None
        rest = pr[i + 1:]
        par = self.f.body(b.d.get('parent'))
        if par is None:
            return None
        k = pr[i]['f']
        for pt, s in par.points():
            if s['k'] == 'assign' and s['r']['k'] == 'agg' and s['r'].get('ak') == 'closure' and s['r'].get('path') == b.path:
                o = s['r']['ops'][k]
                if o['k'] in ('copy', 'move') and not o['p']['pr']:
                    ds = par.whole_defs(o['p']['l'])
                    if len(ds) == 1 and ds[0][1] == 'assign' and ds[0][2]['r']['k'] == 'ref':
                        tp = ds[0][2]['r']['p']
                        if rest == ['*'] and not tp['pr']:
                            return par, tp['l'], True
                        # reference to a place with projections (e.g. &(*options)): hand back the place
                        return par, tp, rest
                    if not rest:
                        return par, o['p']['l'], False
                return par, o, rest
        return None

    # ---------------- evaluation
    def eval_place(self, b, p):
        """value set of reading place p in body b"""
        if not p['pr']:
            if b.is_arg(p['l']) and not b.whole_defs(p['l']):
                return TOP
            return self.vals.get((b.key, p['l']), set())
        # projection of a tuple literal held in a single-def local:  _t = (a, b);  switch _t.1
        if len(p['pr']) == 1 and isinstance(p['pr'][0], dict) and 'f' in p['pr'][0] and not p['pr'][0].get('upvar'):
            ds = b.whole_defs(p['l'])
            if len(ds) == 1 and ds[0][1] == 'assign' and ds[0][2]['r']['k'] == 'agg' and ds[0][2]['r'].get('ak') == 'tuple' \
                    and self.reachable(b, ds[0][0][0]) and p['pr'][0]['f'] < len(ds[0][2]['r']['ops']):
                return self.eval_operand(b, ds[0][2]['r']['ops'][p['pr'][0]['f']])
        # options.final_source
        last = p['pr'][-1]
        if isinstance(last, dict) and last.get('o') == self.opt_adt and last.get('n') == 'final_source':
            base = {'l': p['l'], 'pr': p['pr'][:-1], 'ty': ''}
            return self.eval_options_place(b, base)
        up = self.upvar_parent_local(b, p)
        if up is None and p['pr'] == ['*'] and b.d['kind'] == 'Closure':
            # two-step read of a by-reference upvar:  _t = copy (*_1).k ;  x = copy (*_t)
            ds = b.whole_defs(p['l'])
            if len(ds) == 1 and ds[0][1] == 'assign' and ds[0][2]['r']['k'] == 'use' and \
                    ds[0][2]['r']['o']['k'] in ('copy', 'move'):
                q = ds[0][2]['r']['o']['p']
                up = self.upvar_parent_local(b, {'l': q['l'], 'pr': q['pr'] + ['*']})
        if up is not None:
            par, tgt, extra = up
            if isinstance(tgt, int):
                return self.vals.get((par.key, tgt), set()) if not par.is_arg(tgt) else TOP
        return TOP

    def eval_options_place(self, b, base):
        """value set of final_source of the MapOptions denoted by place `base` (a deref chain)"""
        pr = [x for x in base['pr']]
        l = base['l']
        # strip derefs
        while pr and pr[-1] == '*':
            pr = pr[:-1]
        if not pr:
            return self.eval_options_local(b, l)
        up = self.upvar_parent_local(b, {'l': l, 'pr': base['pr']})
        if up is None:
            # try with one deref less (by-ref capture of a reference)
            for cut in range(len(base['pr']), 0, -1):
                up = self.upvar_parent_local(b, {'l': l, 'pr': base['pr'][:cut]})
                if up is not None:
                    break
        if up is not None:
            par, tgt, extra = up
            if isinstance(tgt, int):
                return self.eval_options_local(par, tgt)
            if isinstance(tgt, dict) and 'l' in tgt and 'pr' in tgt:
                return self.eval_options_place(par, tgt)
            if isinstance(tgt, dict) and tgt.get('k') in ('copy', 'move'):
                return self.eval_options_place(par, tgt['p'])
        return TOP

    def eval_options_local(self, b, l, depth=0):
        """final_source of the MapOptions (or reference to one) held in local l"""
        if depth > 12:
            return TOP
        if b.is_arg(l) and not b.whole_defs(l):
            root = self.root_of(b)
            if b is root:
                return self.ctx.get(b.key, {}).get(l, TOP)
            return TOP
        out = set()
        ds = b.whole_defs(l)
        if not ds:
            return TOP
        for pt, k, s in ds:
            if k != 'assign':
                return TOP
            r = s['r']
            if r['k'] == 'agg' and r.get('path') == self.opt_adt:
                o = dict(zip(r['fields'], r['ops']))['final_source']
                v = self.eval_operand(b, o)
            elif r['k'] in ('ref', 'copyderef'):
                v = self.eval_options_place(b, r['p'])
            elif r['k'] == 'use' and r['o']['k'] in ('copy', 'move'):
                v = self.eval_options_place(b, r['o']['p'])
            else:
                return TOP
            if v is TOP:
                return TOP
            out |= v
        return out

    def eval_operand(self, b, o):
        if o['k'] == 'const':
            if 'bool' in o:
                return {o['bool']}
            if 'int' in o:
                return {o['int']}
            return TOP
        if o['k'] in ('copy', 'move'):
            return self.eval_place(b, o['p'])
        return TOP

    def eval_rvalue(self, b, r):
        k = r['k']
        if k == 'use':
            return self.eval_operand(b, r['o'])
        if k == 'un' and r['op'] == 'Not':
            v = self.eval_operand(b, r['o'])
            if v is TOP:
                return TOP
            return {(not x) if isinstance(x, bool) else ~x for x in v}
        if k == 'bin':
            a, c = self.eval_operand(b, r['a']), self.eval_operand(b, r['b'])
            op = r['op']
            if a is TOP or c is TOP:
                # short cuts: x & false = false ; x | true = true
                known = a if a is not TOP else c
                if known is not TOP and op == 'BitAnd' and known == {False}:
                    return {False}
                if known is not TOP and op == 'BitOr' and known == {True}:
                    return {True}
                return TOP
            out = set()
            for x in a:
                for y in c:
                    if op == 'Eq':
                        out.add(x == y)
                    elif op == 'Ne':
                        out.add(x != y)
                    elif op == 'BitAnd' and isinstance(x, bool):
                        out.add(x and y)
                    elif op == 'BitOr' and isinstance(x, bool):
                        out.add(x or y)
                    else:
                        return TOP
            return out
        if k == 'discr':
            return TOP
        return TOP

    # ---------------- fix-point
    def add_val(self, key, v):
        cur = self.vals.get(key, set())
        n = join(cur, v)
        if n != cur:
            self.vals[key] = n
            self.changed = True

    def mark(self, b, bb):
        s = self.reach.setdefault(b.key, set())
        if bb not in s:
            s.add(bb)
            self.changed = True

    def activate(self, b):
        if b.key not in self.live_bodies:
            self.live_bodies.add(b.key)
            self.mark(b, 0)

    def run(self):
        self.activate(self.entry)
        self.changed = True
        rounds = 0
        while self.changed and rounds < 200:
            self.changed = False
            rounds += 1
            for key in list(self.live_bodies):
                b = self.f.body(key)
                for bb in list(self.reach.get(key, ())):
                    self.step_block(b, bb)

    def step_block(self, b, bb):
        for s in b.stmts(bb):
            if s['k'] != 'assign':
                continue
            p, r = s['p'], s['r']
            if r['k'] == 'agg' and r.get('ak') == 'closure':
                cb = self.f.body(r.get('path'))
                if cb is not None:
                    self.activate(cb)
            if not p['pr']:
                self.add_val((b.key, p['l']), self.eval_rvalue(b, r))
            else:
                up = self.upvar_parent_local(b, p)
                if up is None and p['pr'] == ['*'] and b.d['kind'] == 'Closure':
                    ds = b.whole_defs(p['l'])
                    if len(ds) == 1 and ds[0][1] == 'assign' and ds[0][2]['r']['k'] == 'use' and \
                            ds[0][2]['r']['o']['k'] in ('copy', 'move'):
                        q = ds[0][2]['r']['o']['p']
                        up = self.upvar_parent_local(b, {'l': q['l'], 'pr': q['pr'] + ['*']})
                if up is not None and isinstance(up[1], int) and up[2] is True:
                    self.add_val((up[0].key, up[1]), self.eval_rvalue(b, r))
        t = b.term(bb)
        k = t['k']
        if k == 'goto':
            self.mark(b, t['t'])
        elif k == 'switch':
            v = self.eval_operand(b, t['d'])
            if v is TOP:
                for x in t['targets']:
                    self.mark(b, x[1])
                self.mark(b, t['otherwise'])
            else:
                tm = {x[0]: x[1] for x in t['targets']}
                for x in v:
                    iv = int(x) if isinstance(x, bool) else x
                    self.mark(b, tm.get(iv, t['otherwise']))
        elif k in ('drop', 'assert'):
            if t.get('t') is not None:
                self.mark(b, t['t'])
        elif k == 'call':
            if not t['dest']['pr']:
                self.add_val((b.key, t['dest']['l']), TOP)
            if t.get('t') is not None:
                self.mark(b, t['t'])
            c = t.get('callee')
            if c:
                tgt = self.f.body(c.get('resolved') or c['path'])
                if tgt is not None and tgt.d['kind'] != 'Closure':
                    m = {}
                    for i in self.opt_params(tgt):
                        a = t['args'][i - 1]
                        m[i] = self.eval_options_place(b, a['p']) if a['k'] in ('copy', 'move') else TOP
                    self._set_ctx(tgt, m)
                    self.activate(tgt)
                elif tgt is not None:
                    self.activate(tgt)

    # ---------------- queries
    def reachable(self, b, bb):
        return bb in self.reach.get(b.key, ())

    def body_live(self, b):
        return b.key in self.live_bodies
