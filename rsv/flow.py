"""A-IFLOW: index-space origin analysis over expression trees (flow-insensitive, closure- and table-aware).

origin classes of a u32 / i64 / Option<u32> value:
  LOCAL   an index in a *child's* numbering: a `source_index` / `name_index` field read off a closure parameter
          (the child's Mapping / OriginalLocation), or the index parameter of an inner on_source / on_name closure
  GLOBAL  an index in the numbering this stream announces: `len()` of a de-duplication map
  CONST   constants / None / sentinels
  TABLE   a lookup `t.get(k)`: replaced by the join of everything inserted into t (keys are not values)
  RAW     an element of some other container (vector indexing): not a translated index
  UNKNOWN anything else
"""
from .ir import walk, strip, call_target, substitute, resolve_closure_params

PASS_ARG0 = {'copied', 'cloned', 'unwrap', 'expect', 'unwrap_or_default', 'as_ref', 'as_mut', 'filter', 'into', 'from',
             'clone', 'deref', 'deref_mut', 'borrow', 'borrow_mut', 'take', 'as_deref', 'unwrap_unchecked', 'to_owned'}
CLOSURE_RET = {'and_then', 'map', 'then', 'unwrap_or_else', 'or_else', 'filter_map', 'map_or', 'map_or_else', 'get_or_insert_with'}
INDEX_FIELDS = ('source_index', 'name_index')


class Origins:
    def __init__(self, facts, group_bodies):
        self.f = facts
        self.bodies = {b.key: b for b in group_bodies}
        self._tables = None

    # ---- tables: root expr -> list of inserted value exprs
    def table_root(self, e):
        rs = strip(e, through_calls={'deref', 'deref_mut', 'borrow', 'borrow_mut', 'as_ref', 'as_mut', 'new', 'clone', 'by_ref'})
        return rs[0] if rs else None

    def tables(self):
        if self._tables is None:
            self._tables = {}
            pending = []
            for b in self.bodies.values():
                for pt, t in b.calls():
                    c = t.get('callee')
                    if c and c['name'] == 'insert' and len(t['args']) == 3:
                        root = self.table_root(b.expr_of_operand(t['args'][0]))
                        val = b.expr_of_operand(t['args'][2])
                        self._tables.setdefault(root, []).append((b, t, val))
                        if root is not None and root[0] == 'arg' and b.d['kind'] != 'Closure':
                            pending.append((b, root, t, val))
            # inserts made by a helper function into a table it receives as a parameter: attribute them to the caller's table
            for hb, root, t, val in pending:
                for b in self.bodies.values():
                    for pt, ct in b.calls():
                        c = ct.get('callee')
                        if not c or (c.get('resolved') or c['path']) != hb.key:
                            continue
                        actuals = {i + 1: b.expr_of_operand(a) for i, a in enumerate(ct['args'])}
                        if root[1] in actuals:
                            aroot = self.table_root(actuals[root[1]])
                            self._tables.setdefault(aroot, []).append((b, ct, substitute(val, hb.key, actuals)))
        return self._tables

    def closure_body(self, e):
        for x in walk(e):
            if x[0] == 'agg' and x[1] == 'closure':
                return self.f.body(x[2])
            if x[0] == 'closure':
                return self.f.body(x[1])
        return None

    def origin(self, e, seen=None, depth=0):
        """set of origin tags"""
        if seen is None:
            seen = set()
        if depth > 60:
            return {'UNKNOWN'}
        k = e[0]
        if k == 'const':
            return {'CONST'}
        if depth == 0:
            e = resolve_closure_params(self.f, e)
            k = e[0]
        if k in ('ref', 'deref', 'upvar', 'cast', 'downcast', 'payload'):
            return self.origin(e[1], seen, depth + 1)
        if k == 'un':
            return self.origin(e[2], seen, depth + 1)
        if k == 'phi':
            out = set()
            for a in e[1]:
                out |= self.origin(a, seen, depth + 1)
            return out
        if k in ('cycle', 'undef'):
            return set()
        if k == 'bin':
            return self.origin(e[2], seen, depth + 1) | self.origin(e[3], seen, depth + 1)
        if k == 'agg':
            if e[1] == 'adt' and e[2] and e[2].endswith('option::Option'):
                if e[3] == 'None':
                    return {'CONST'}
                return self.origin(e[5][0], seen, depth + 1)
            if e[1] == 'tuple':
                out = set()
                for a in e[5]:
                    out |= self.origin(a, seen, depth + 1)
                return out
            return {'UNKNOWN'}
        if k == 'field':
            base, name = e[1], e[2]
            # projection of a literal aggregate: pick the operand
            for x in strip(base, through_calls=set()):
                if x[0] == 'agg' and x[1] in ('tuple', 'adt') and name in x[4] or \
                        (x[0] == 'agg' and x[1] == 'tuple' and name.isdigit() and int(name) < len(x[5])):
                    idx = x[4].index(name) if name in x[4] else int(name)
                    return self.origin(x[5][idx], seen, depth + 1)
            if name in INDEX_FIELDS:
                roots = strip(base, through_calls=PASS_ARG0 | {'as_ref'})
                out = set()
                for r in roots:
                    if r[0] == 'arg' and r[3] in self.bodies and self.bodies[r[3]].d['kind'] == 'Closure':
                        out.add('LOCAL')
                    elif r[0] == 'field' or r[0] == 'arg':
                        out.add('LOCAL')
                    elif r[0] == 'agg':
                        out |= self.origin(('field', r, name, e[3]), seen, depth + 1) if r is not base else {'UNKNOWN'}
                    else:
                        out.add('LOCAL')
                return out
            # other fields (tuple .0 of Option payload etc.): look through
            return self.origin(base, seen, depth + 1)
        if k == 'arg':
            b = self.bodies.get(e[3])
            if b is not None and b.d['kind'] == 'Closure' and b.local_ty(e[1]) in ('u32', 'i64', 'usize'):
                return {'LOCAL'}
            if b is not None and b.d['kind'] == 'Closure':
                return {'LOCAL?'}
            return {'UNKNOWN'}
        if k in ('index', 'cindex'):
            return {'RAW'}
        if k == 'call':
            name = e[1].rsplit('::', 1)[-1]
            args = e[2]
            ct = call_target(self.f, e) if name not in ('get', 'get_mut', 'len', 'insert') else None
            if ct is not None:
                body, actuals = ct
                key = ('F', body.key)
                if key in seen:
                    return set()
                return self.origin(substitute(body.expr_of_local(0), body.key, actuals), seen | {key}, depth + 1)
            if name == 'len' and args:
                return {'GLOBAL'}
            if name in ('get', 'get_mut') and args:
                root = self.table_root(args[0])
                key = ('T', root)
                if key in seen:
                    return set()
                seen = seen | {key}
                vals = self.tables().get(root)
                if not vals:
                    return {'RAW'}
                out = set()
                for b, t, v in vals:
                    out |= self.origin(v, seen, depth + 1)
                return out
            if name == 'then_some' and len(args) == 2:
                return self.origin(args[1], seen, depth + 1) | {'CONST'}
            if name in ('unwrap_or', 'or') and len(args) == 2:
                return self.origin(args[0], seen, depth + 1) | self.origin(args[1], seen, depth + 1)
            if name in CLOSURE_RET and args:
                cl = self.closure_body(args[-1])
                out = set()
                if name in ('map_or',) and len(args) == 3:
                    out |= self.origin(args[1], seen, depth + 1)
                if name in ('unwrap_or_else', 'or_else'):
                    out |= self.origin(args[0], seen, depth + 1)
                if cl is None:
                    return out | {'UNKNOWN'}
                key = ('C', cl.key)
                if key in seen:
                    return out
                return out | self.origin(cl.expr_of_local(0), seen | {key}, depth + 1)
            if name in PASS_ARG0 and args:
                return self.origin(args[0], seen, depth + 1)
            if name in ('default', 'new') and not args:
                return {'CONST'}
            return {'UNKNOWN'}
        return {'UNKNOWN'}
