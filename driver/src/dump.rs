//! Fact extraction: everything the rule engine needs, resolved by the compiler.
use crate::json::J;
use rustc_hir::def::DefKind;
use rustc_hir::def_id::{DefId, LocalDefId};
use rustc_middle::mir::{
    self, AggregateKind, AssertKind, BasicBlock, Body, BorrowKind, ConstValue, Operand, Place,
    PlaceElem, Rvalue, StatementKind, TerminatorKind,
};
use rustc_middle::ty::print::with_no_trimmed_paths;
use rustc_middle::ty::{self, Instance, Ty, TyCtxt, TypingEnv};
use rustc_span::Span;

fn span_str(tcx: TyCtxt<'_>, sp: Span) -> String {
    // innermost source callsite: for macro expansions report where the macro was invoked
    let sp = sp.source_callsite();
    let sm = tcx.sess.source_map();
    let lo = sm.lookup_char_pos(sp.lo());
    let name = match &lo.file.name {
        rustc_span::FileName::Real(r) => {
            r.local_path().map(|p| p.display().to_string()).unwrap_or_else(|| format!("{:?}", lo.file.name))
        }
        other => format!("{:?}", other),
    };
    format!("{}:{}:{}", name, lo.line, lo.col.0 + 1)
}

fn span_end_line(tcx: TyCtxt<'_>, sp: Span) -> i128 {
    let sm = tcx.sess.source_map();
    sm.lookup_char_pos(sp.hi()).line as i128
}

fn path(tcx: TyCtxt<'_>, d: DefId) -> String {
    with_no_trimmed_paths!(tcx.def_path_str(d))
}

fn ty_str(t: Ty<'_>) -> String {
    with_no_trimmed_paths!(format!("{}", t))
}

/// Path of the ADT at the head of a type, looking through references / raw pointers.
fn ty_adt<'tcx>(tcx: TyCtxt<'tcx>, t: Ty<'tcx>) -> Option<String> {
    match t.kind() {
        ty::Adt(def, _) => Some(path(tcx, def.did())),
        ty::Ref(_, inner, _) => ty_adt(tcx, *inner),
        ty::RawPtr(inner, _) => ty_adt(tcx, *inner),
        _ => None,
    }
}

/// Structured, shallow description of a type (head constructor + generic args), used by
/// rules that anchor on *field type* rather than on names.
fn ty_shape<'tcx>(tcx: TyCtxt<'tcx>, t: Ty<'tcx>, depth: usize) -> J {
    if depth > 6 {
        return J::s(ty_str(t));
    }
    match t.kind() {
        ty::Adt(def, args) => {
            let a: Vec<J> = args.types().map(|x| ty_shape(tcx, x, depth + 1)).collect();
            J::obj().fs("adt", path(tcx, def.did())).f("args", J::Arr(a)).done()
        }
        ty::Ref(_, inner, m) => J::obj()
            .fs("ref", if m.is_mut() { "mut" } else { "shared" })
            .f("to", ty_shape(tcx, *inner, depth + 1))
            .done(),
        ty::RawPtr(inner, m) => J::obj()
            .fs("ptr", if m.is_mut() { "mut" } else { "const" })
            .f("to", ty_shape(tcx, *inner, depth + 1))
            .done(),
        ty::Slice(inner) => J::obj().f("slice", ty_shape(tcx, *inner, depth + 1)).done(),
        ty::Array(inner, len) => J::obj()
            .f("array", ty_shape(tcx, *inner, depth + 1))
            .fs("len", with_no_trimmed_paths!(format!("{}", len)))
            .done(),
        ty::Tuple(ts) => J::obj().f("tuple", J::Arr(ts.iter().map(|x| ty_shape(tcx, x, depth + 1)).collect())).done(),
        ty::Closure(d, _) => J::obj().fs("closure", path(tcx, *d)).done(),
        ty::FnDef(d, _) => J::obj().fs("fndef", path(tcx, *d)).done(),
        ty::Dynamic(..) => J::obj().fs("dyn", ty_str(t)).done(),
        ty::Param(p) => J::obj().fs("param", p.name.to_string()).done(),
        _ => J::obj().fs("prim", ty_str(t)).done(),
    }
}

/// read a (pointer, length) pair stored at `off` in `a`
fn read_fat<'tcx>(
    _tcx: TyCtxt<'tcx>,
    a: &rustc_middle::mir::interpret::Allocation,
    off: usize,
) -> Option<(rustc_middle::mir::interpret::AllocId, usize, usize)> {
    if off + 16 > a.len() {
        return None;
    }
    let prov = a.provenance().ptrs().get(&rustc_abi::Size::from_bytes(off as u64))?;
    let raw = a.inspect_with_uninit_and_ptr_outside_interpreter(off..off + 16);
    let rel = u64::from_le_bytes(raw[0..8].try_into().ok()?) as usize;
    let len = u64::from_le_bytes(raw[8..16].try_into().ok()?) as usize;
    Some((prov.alloc_id(), rel, len))
}

struct Cx<'tcx> {
    tcx: TyCtxt<'tcx>,
}

impl<'tcx> Cx<'tcx> {
    fn place(&self, body: &Body<'tcx>, owner: DefId, p: &Place<'tcx>) -> J {
        let tcx = self.tcx;
        let mut pty = mir::PlaceTy::from_ty(body.local_decls[p.local].ty);
        let mut projs = Vec::new();
        for elem in p.projection.iter() {
            let j = match elem {
                PlaceElem::Deref => J::s("*"),
                PlaceElem::Field(f, fty) => {
                    let mut o = J::obj().fi("f", f.index() as i128).fs("ty", ty_str(fty));
                    match pty.ty.kind() {
                        ty::Adt(def, _) => {
                            let v = pty.variant_index.unwrap_or(rustc_abi::FIRST_VARIANT);
                            let var = def.variant(v);
                            if let Some(fd) = var.fields.get(f) {
                                o = o.fs("n", fd.name.to_string());
                            }
                            o = o.fs("o", path(tcx, def.did()));
                            if def.is_enum() {
                                o = o.fs("v", var.name.to_string());
                            }
                        }
                        ty::Closure(cd, _) => {
                            o = o.fs("o", path(tcx, *cd)).fb("upvar", true);
                            if let Some(l) = cd.as_local() {
                                let caps = tcx.closure_captures(l);
                                if let Some(c) = caps.get(f.index()) {
                                    o = o.fs("n", c.to_symbol().to_string());
                                    o = o.fb("byref", matches!(c.info.capture_kind, ty::UpvarCapture::ByRef(_)));
                                }
                            }
                        }
                        ty::Tuple(_) => {
                            o = o.fs("o", "(tuple)");
                        }
                        _ => {
                            o = o.fs("o", ty_str(pty.ty));
                        }
                    }
                    o.done()
                }
                PlaceElem::Index(l) => J::obj().fi("i", l.index() as i128).done(),
                PlaceElem::ConstantIndex { offset, min_length, from_end } => J::obj()
                    .fi("ci", offset as i128)
                    .fi("min", min_length as i128)
                    .fb("from_end", from_end)
                    .done(),
                PlaceElem::Subslice { from, to, from_end } => {
                    J::obj().fi("sub_from", from as i128).fi("sub_to", to as i128).fb("from_end", from_end).done()
                }
                PlaceElem::Downcast(name, vi) => J::obj()
                    .fs("dc", name.map(|s| s.to_string()).unwrap_or_default())
                    .fi("vi", vi.index() as i128)
                    .done(),
                PlaceElem::OpaqueCast(t) => J::obj().fs("opaque", ty_str(t)).done(),
                PlaceElem::UnwrapUnsafeBinder(t) => J::obj().fs("unwrap_binder", ty_str(t)).done(),
            };
            projs.push(j);
            pty = pty.projection_ty(tcx, elem);
        }
        let _ = owner;
        J::obj().fi("l", p.local.index() as i128).f("pr", J::Arr(projs)).fs("ty", ty_str(pty.ty)).done()
    }

    fn fn_info(&self, owner: DefId, d: DefId, args: ty::GenericArgsRef<'tcx>) -> J {
        let tcx = self.tcx;
        let mut o = J::obj().fs("path", path(tcx, d));
        o = o.fs("crate", tcx.crate_name(d.krate).to_string());
        o = o.fs("dp", format!("{}{}", tcx.crate_name(d.krate), tcx.def_path(d).to_string_no_crate_verbose()));
        o = o.fb("local", d.is_local());
        o = o.fs("name", tcx.opt_item_name(d).map(|s| s.to_string()).unwrap_or_default());
        let argv: Vec<J> = args
            .iter()
            .filter_map(|a| a.as_type())
            .map(|t| J::s(ty_str(t)))
            .collect();
        o = o.f("targs", J::Arr(argv));
        let shapes: Vec<J> = args.iter().filter_map(|a| a.as_type()).map(|t| ty_shape(tcx, t, 0)).collect();
        o = o.f("tshapes", J::Arr(shapes));
        if matches!(tcx.def_kind(d), DefKind::Fn | DefKind::AssocFn) {
            let sig = tcx.fn_sig(d).instantiate_identity().skip_norm_wip();
            o = o.fb("unsafe", sig.safety().is_unsafe());
        }
        if let Some(t) = tcx.trait_of_assoc(d) {
            o = o.fs("trait", path(tcx, t));
        }
        if let Some(i) = tcx.impl_of_assoc(d) {
            let st = tcx.type_of(i).instantiate_identity().skip_norm_wip();
            o = o.fs("impl_self", ty_str(st));
            if let Some(a) = ty_adt(tcx, st) {
                o = o.fs("impl_adt", a);
            }
            if let Some(tr) = tcx.impl_opt_trait_ref(i) {
                o = o.fs("impl_trait", path(tcx, tr.skip_binder().def_id));
            }
        }
        // resolve through traits when the receiver type is known
        if matches!(tcx.def_kind(d), DefKind::Fn | DefKind::AssocFn) {
            let env = TypingEnv::post_analysis(tcx, owner);
            if let Ok(Some(inst)) = Instance::try_resolve(tcx, env, d, args) {
                let rd = inst.def_id();
                if rd != d {
                    o = o.fs("resolved", path(tcx, rd));
                    o = o.fb("resolved_local", rd.is_local());
                    if tcx.is_closure_like(rd) {
                        o = o.fb("resolved_closure", true);
                    }
                    if let Some(i) = tcx.impl_of_assoc(rd) {
                        let st = tcx.type_of(i).instantiate_identity().skip_norm_wip();
                        o = o.fs("resolved_impl_self", ty_str(st));
                        o = o.fb("resolved_derived", tcx.is_automatically_derived(i));
                    }
                }
                o = o.fs("inst_kind", format!("{:?}", std::mem::discriminant(&inst.def)).to_string());
                match inst.def {
                    ty::InstanceKind::Virtual(..) => o = o.fb("virtual", true),
                    ty::InstanceKind::Intrinsic(..) => o = o.fb("intrinsic", true),
                    _ => {}
                }
            }
        }
        o.done()
    }

    fn constant(&self, body: &Body<'tcx>, owner: DefId, c: &mir::ConstOperand<'tcx>) -> J {
        let tcx = self.tcx;
        let ty = c.const_.ty();
        let mut o = J::obj().fs("k", "const").fs("ty", ty_str(ty));
        let _ = body;
        if let ty::FnDef(d, args) = ty.kind() {
            o = o.f("fn", self.fn_info(owner, *d, args));
            return o.done();
        }
        if let ty::Closure(d, _) = ty.kind() {
            o = o.fs("closure", path(tcx, *d));
            return o.done();
        }
        // try to evaluate
        let env = TypingEnv::post_analysis(tcx, owner);
        match c.const_ {
            mir::Const::Unevaluated(uv, _) if uv.promoted.is_some() => {
                o = o.fi("promoted", uv.promoted.unwrap().index() as i128);
                o = o.fs("promoted_of", path(tcx, uv.def));
            }
            _ => {}
        }
        if let mir::Const::Unevaluated(uv, _) = c.const_ {
            if uv.promoted.is_none() {
                o = o.fs("item", path(tcx, uv.def));
            }
        }
        let val = c.const_.eval(tcx, env, c.span).ok();
        if let Some(v) = val {
            o = self.const_value(o, v, ty);
        } else {
            o = o.fs("uneval", with_no_trimmed_paths!(format!("{}", c.const_)));
        }
        o.done()
    }

    fn const_value(&self, mut o: crate::json::Obj, v: ConstValue, ty: Ty<'tcx>) -> crate::json::Obj {
        let tcx = self.tcx;
        match v {
            ConstValue::Scalar(s) => {
                if let Ok(si) = s.try_to_scalar_int() {
                    let size = si.size();
                    let bits = si.to_bits(size);
                    if ty.is_bool() {
                        o = o.fb("bool", bits != 0);
                    } else if ty.is_signed() {
                        let v = size.sign_extend(bits) as i128;
                        o = o.fi("int", v);
                    } else if ty.is_integral() || ty.is_char() {
                        // u128 may exceed i128: clamp (never occurs in this crate)
                        o = o.fi("int", bits as i128);
                    } else {
                        o = o.fi("bits", bits as i128);
                    }
                } else if let rustc_middle::mir::interpret::Scalar::Ptr(ptr, _) = s {
                    o = o.fs("ptr", "scalar-ptr");
                    let (prov, off) = ptr.prov_and_relative_offset();
                    if let ty::Ref(_, inner, _) = ty.kind() {
                        if let ty::Array(et, n) = inner.kind() {
                            if *et == tcx.types.u8 {
                                if let rustc_middle::mir::interpret::GlobalAlloc::Memory(alloc) =
                                    tcx.global_alloc(prov.alloc_id())
                                {
                                    let a = alloc.inner();
                                    let len = n.try_to_target_usize(tcx).unwrap_or(0) as usize;
                                    let off = off.bytes() as usize;
                                    if a.provenance().ptrs().is_empty() && off + len <= a.len() {
                                        let bytes = a.inspect_with_uninit_and_ptr_outside_interpreter(off..off + len);
                                        o = o.f("bytes", J::Arr(bytes.iter().map(|b| J::Int(*b as i128)).collect()));
                                    }
                                }
                            }
                        }
                    }
                }
            }
            ConstValue::ZeroSized => {
                o = o.fb("zst", true);
            }
            ConstValue::Slice { alloc_id, meta } => {
                let alloc = tcx.global_alloc(alloc_id).unwrap_memory();
                let a = alloc.inner();
                let len = meta as usize;
                let bytes = a.inspect_with_uninit_and_ptr_outside_interpreter(0..len.min(a.len()));
                if let ty::Ref(_, inner, _) = ty.kind() {
                    if inner.is_str() {
                        o = o.fs("str", String::from_utf8_lossy(bytes).to_string());
                    } else {
                        o = o.f("bytes", J::Arr(bytes.iter().map(|b| J::Int(*b as i128)).collect()));
                    }
                }
            }
            ConstValue::Indirect { alloc_id, offset } => {
                if let rustc_middle::mir::interpret::GlobalAlloc::Memory(alloc) = tcx.global_alloc(alloc_id) {
                    let a = alloc.inner();
                    // only dump plain byte arrays / small aggregates without pointers
                    let off = offset.bytes() as usize;
                    if let ty::Array(et, _) = ty.kind() {
                        if *et == tcx.types.u8 && a.provenance().ptrs().is_empty() {
                            let bytes = a.inspect_with_uninit_and_ptr_outside_interpreter(off..a.len());
                            o = o.f("bytes", J::Arr(bytes.iter().map(|b| J::Int(*b as i128)).collect()));
                        }
                    }
                    // fat pointers stored in memory: &[u8] and &[&str]
                    if let ty::Ref(_, inner, _) = ty.kind() {
                        if let ty::Slice(et) = inner.kind() {
                            if let Some((tid, toff, len)) = read_fat(tcx, a, off) {
                                if let rustc_middle::mir::interpret::GlobalAlloc::Memory(t) = tcx.global_alloc(tid) {
                                    let ta = t.inner();
                                    if *et == tcx.types.u8 && toff + len <= ta.len() {
                                        let bytes = ta.inspect_with_uninit_and_ptr_outside_interpreter(toff..toff + len);
                                        o = o.f("bytes", J::Arr(bytes.iter().map(|b| J::Int(*b as i128)).collect()));
                                    } else if let ty::Ref(_, e2, _) = et.kind() {
                                        if e2.is_str() {
                                            let mut strs = Vec::new();
                                            for i in 0..len {
                                                if let Some((sid, soff, slen)) = read_fat(tcx, ta, toff + 16 * i) {
                                                    if let rustc_middle::mir::interpret::GlobalAlloc::Memory(sa) = tcx.global_alloc(sid) {
                                                        let sa = sa.inner();
                                                        if soff + slen <= sa.len() {
                                                            let b = sa.inspect_with_uninit_and_ptr_outside_interpreter(soff..soff + slen);
                                                            strs.push(J::s(String::from_utf8_lossy(b).to_string()));
                                                        }
                                                    }
                                                }
                                            }
                                            o = o.f("strs", J::Arr(strs));
                                        }
                                    }
                                }
                            }
                        }
                    }
                    o = o.fb("indirect", true);
                }
            }
        }
        o
    }

    fn operand(&self, body: &Body<'tcx>, owner: DefId, op: &Operand<'tcx>) -> J {
        match op {
            Operand::Copy(p) => J::obj().fs("k", "copy").f("p", self.place(body, owner, p)).done(),
            Operand::Move(p) => J::obj().fs("k", "move").f("p", self.place(body, owner, p)).done(),
            Operand::Constant(c) => self.constant(body, owner, c),
            Operand::RuntimeChecks(rc) => J::obj().fs("k", "rtcheck").fs("what", format!("{:?}", rc)).done(),
        }
    }

    fn rvalue(&self, body: &Body<'tcx>, owner: DefId, rv: &Rvalue<'tcx>) -> J {
        let tcx = self.tcx;
        match rv {
            Rvalue::Use(op, _) => J::obj().fs("k", "use").f("o", self.operand(body, owner, op)).done(),
            Rvalue::Repeat(op, n) => J::obj()
                .fs("k", "repeat")
                .f("o", self.operand(body, owner, op))
                .fs("n", with_no_trimmed_paths!(format!("{}", n)))
                .done(),
            Rvalue::Ref(_, bk, p) => {
                let m = match bk {
                    BorrowKind::Shared => "shared",
                    BorrowKind::Fake(_) => "fake",
                    BorrowKind::Mut { .. } => "mut",
                };
                J::obj().fs("k", "ref").fs("m", m).f("p", self.place(body, owner, p)).done()
            }
            Rvalue::ThreadLocalRef(d) => J::obj().fs("k", "tls").fs("path", path(tcx, *d)).done(),
            Rvalue::RawPtr(k, p) => J::obj()
                .fs("k", "rawptr")
                .fs("m", format!("{:?}", k))
                .f("p", self.place(body, owner, p))
                .done(),
            Rvalue::Cast(ck, op, t) => J::obj()
                .fs("k", "cast")
                .fs("ck", format!("{:?}", ck))
                .f("o", self.operand(body, owner, op))
                .fs("ty", ty_str(*t))
                .fs("from_ty", ty_str(op.ty(&body.local_decls, tcx)))
                .done(),
            Rvalue::BinaryOp(op, ab) => J::obj()
                .fs("k", "bin")
                .fs("op", format!("{:?}", op))
                .f("a", self.operand(body, owner, &ab.0))
                .f("b", self.operand(body, owner, &ab.1))
                .done(),
            Rvalue::UnaryOp(op, a) => J::obj()
                .fs("k", "un")
                .fs("op", format!("{:?}", op))
                .f("o", self.operand(body, owner, a))
                .done(),
            Rvalue::Discriminant(p) => J::obj().fs("k", "discr").f("p", self.place(body, owner, p)).done(),
            Rvalue::Aggregate(kind, ops) => {
                let mut o = J::obj().fs("k", "agg");
                match &**kind {
                    AggregateKind::Array(t) => {
                        o = o.fs("ak", "array").fs("elem", ty_str(*t));
                    }
                    AggregateKind::Tuple => {
                        o = o.fs("ak", "tuple");
                    }
                    AggregateKind::Adt(d, vi, _args, _, active) => {
                        let def = tcx.adt_def(*d);
                        let var = def.variant(*vi);
                        o = o.fs("ak", "adt").fs("path", path(tcx, *d)).fs("variant", var.name.to_string());
                        o = o.fi("vi", vi.index() as i128);
                        let names: Vec<J> = match active {
                            Some(f) => vec![J::s(var.fields[*f].name.to_string())],
                            None => var.fields.iter().map(|f| J::s(f.name.to_string())).collect(),
                        };
                        o = o.f("fields", J::Arr(names));
                    }
                    AggregateKind::Closure(d, _) => {
                        o = o.fs("ak", "closure").fs("path", path(tcx, *d));
                        if let Some(l) = d.as_local() {
                            let caps = tcx.closure_captures(l);
                            let names: Vec<J> = caps.iter().map(|c| J::s(c.to_symbol().to_string())).collect();
                            o = o.f("fields", J::Arr(names));
                        }
                    }
                    AggregateKind::Coroutine(d, _) | AggregateKind::CoroutineClosure(d, _) => {
                        o = o.fs("ak", "coroutine").fs("path", path(tcx, *d));
                    }
                    AggregateKind::RawPtr(t, _) => {
                        o = o.fs("ak", "rawptr").fs("elem", ty_str(*t));
                    }
                }
                let v: Vec<J> = ops.iter().map(|x| self.operand(body, owner, x)).collect();
                o.f("ops", J::Arr(v)).done()
            }
            Rvalue::CopyForDeref(p) => J::obj().fs("k", "copyderef").f("p", self.place(body, owner, p)).done(),
            Rvalue::WrapUnsafeBinder(op, _) => J::obj().fs("k", "use").f("o", self.operand(body, owner, op)).done(),
        }
    }

    fn bb(b: Option<BasicBlock>) -> J {
        match b {
            Some(b) => J::Int(b.index() as i128),
            None => J::Null,
        }
    }

    fn unwind(u: &mir::UnwindAction) -> J {
        match u {
            mir::UnwindAction::Cleanup(b) => J::Int(b.index() as i128),
            _ => J::Null,
        }
    }

    fn terminator(&self, body: &Body<'tcx>, owner: DefId, t: &mir::Terminator<'tcx>) -> J {
        let tcx = self.tcx;
        let sp = t.source_info.span;
        let base = |k: &str| J::obj().fs("k", k).fs("s", span_str(tcx, sp)).fb("x", sp.from_expansion());
        match &t.kind {
            TerminatorKind::Goto { target } => base("goto").f("t", Self::bb(Some(*target))).done(),
            TerminatorKind::SwitchInt { discr, targets } => {
                let tv: Vec<J> = targets
                    .iter()
                    .map(|(v, b)| J::Arr(vec![J::Int(v as i128), J::Int(b.index() as i128)]))
                    .collect();
                base("switch")
                    .f("d", self.operand(body, owner, discr))
                    .fs("dty", ty_str(discr.ty(&body.local_decls, tcx)))
                    .f("targets", J::Arr(tv))
                    .f("otherwise", J::Int(targets.otherwise().index() as i128))
                    .done()
            }
            TerminatorKind::UnwindResume => base("resume").done(),
            TerminatorKind::UnwindTerminate(_) => base("abort").done(),
            TerminatorKind::Return => base("return").done(),
            TerminatorKind::Unreachable => base("unreachable").done(),
            TerminatorKind::Drop { place, target, unwind, .. } => base("drop")
                .f("p", self.place(body, owner, place))
                .f("t", Self::bb(Some(*target)))
                .f("u", Self::unwind(unwind))
                .done(),
            TerminatorKind::Call { func, args, destination, target, unwind, fn_span, .. } => {
                let mut o = base("call");
                let fty = func.ty(&body.local_decls, tcx);
                if func.const_fn_def().is_none() {
                    o = o.f("f", self.operand(body, owner, func));
                    o = o.fs("fty", ty_str(fty));
                }
                // signature-level classification for indirect calls
                if let Some((d, ga)) = func.const_fn_def() {
                    o = o.f("callee", self.fn_info(owner, d, ga));
                }
                let av: Vec<J> = args.iter().map(|a| self.operand(body, owner, &a.node)).collect();
                o = o.f("args", J::Arr(av));
                let at: Vec<J> = args.iter().map(|a| J::s(ty_str(a.node.ty(&body.local_decls, tcx)))).collect();
                o = o.f("arg_tys", J::Arr(at));
                o = o.f("dest", self.place(body, owner, destination));
                o = o.f("t", Self::bb(*target));
                o = o.f("u", Self::unwind(unwind));
                o = o.fs("fn_span", span_str(tcx, *fn_span));
                o.done()
            }
            TerminatorKind::TailCall { func, args, .. } => {
                let mut o = base("tailcall");
                o = o.f("f", self.operand(body, owner, func));
                let av: Vec<J> = args.iter().map(|a| self.operand(body, owner, &a.node)).collect();
                o.f("args", J::Arr(av)).done()
            }
            TerminatorKind::Assert { cond, expected, msg, target, unwind } => {
                let mut m = J::obj();
                match &**msg {
                    AssertKind::BoundsCheck { len, index } => {
                        m = m
                            .fs("kind", "BoundsCheck")
                            .f("len", self.operand(body, owner, len))
                            .f("index", self.operand(body, owner, index));
                    }
                    AssertKind::Overflow(op, a, b) => {
                        m = m
                            .fs("kind", "Overflow")
                            .fs("op", format!("{:?}", op))
                            .f("a", self.operand(body, owner, a))
                            .f("b", self.operand(body, owner, b))
                            .fs("a_ty", ty_str(a.ty(&body.local_decls, tcx)))
                            .fs("b_ty", ty_str(b.ty(&body.local_decls, tcx)));
                    }
                    AssertKind::OverflowNeg(a) => {
                        m = m.fs("kind", "OverflowNeg").f("a", self.operand(body, owner, a));
                    }
                    AssertKind::DivisionByZero(a) => {
                        m = m.fs("kind", "DivisionByZero").f("a", self.operand(body, owner, a));
                    }
                    AssertKind::RemainderByZero(a) => {
                        m = m.fs("kind", "RemainderByZero").f("a", self.operand(body, owner, a));
                    }
                    other => {
                        m = m.fs("kind", format!("{:?}", std::mem::discriminant(other))).fs(
                            "text",
                            format!("{:?}", other).chars().take(80).collect::<String>(),
                        );
                    }
                }
                base("assert")
                    .f("c", self.operand(body, owner, cond))
                    .fb("exp", *expected)
                    .f("msg", m.done())
                    .f("t", Self::bb(Some(*target)))
                    .f("u", Self::unwind(unwind))
                    .done()
            }
            TerminatorKind::FalseEdge { real_target, .. } => base("goto").f("t", Self::bb(Some(*real_target))).done(),
            TerminatorKind::FalseUnwind { real_target, .. } => {
                base("goto").f("t", Self::bb(Some(*real_target))).done()
            }
            other => base("other").fs("text", format!("{:?}", other).chars().take(120).collect::<String>()).done(),
        }
    }

    fn body(&self, def: LocalDefId, body: &Body<'tcx>, promoted: Option<usize>) -> J {
        let tcx = self.tcx;
        let did = def.to_def_id();
        let kind = tcx.def_kind(did);
        let mut o = J::obj().fs("path", path(tcx, did));
        if let Some(p) = promoted {
            o = o.fi("promoted", p as i128);
        }
        o = o.fs("kind", format!("{:?}", kind));
        o = o.fs("name", tcx.opt_item_name(did).map(|s| s.to_string()).unwrap_or_default());
        o = o.fs("span", span_str(tcx, tcx.def_span(did)));
        o = o.fi("span_end_line", span_end_line(tcx, body.span));
        o = o.fb("from_expansion", tcx.def_span(did).from_expansion());
        if tcx.is_closure_like(did) {
            o = o.fs("parent", path(tcx, tcx.parent(did)));
            o = o.fs("root", path(tcx, tcx.typeck_root_def_id(did)));
            let caps = tcx.closure_captures(def);
            let names: Vec<J> = caps
                .iter()
                .map(|c| {
                    J::obj()
                        .fs("n", c.to_symbol().to_string())
                        .fb("byref", matches!(c.info.capture_kind, ty::UpvarCapture::ByRef(_)))
                        .fb(
                            "mut",
                            matches!(
                                c.info.capture_kind,
                                ty::UpvarCapture::ByRef(ty::BorrowKind::Mutable | ty::BorrowKind::UniqueImmutable)
                            ),
                        )
                        .fs("ty", ty_str(c.place.ty()))
                        .done()
                })
                .collect();
            o = o.f("upvars", J::Arr(names));
        }
        if matches!(kind, DefKind::Fn | DefKind::AssocFn) {
            let sig = tcx.fn_sig(did).instantiate_identity().skip_norm_wip();
            o = o.fb("unsafe_fn", sig.safety().is_unsafe());
            o = o.fs("vis", format!("{:?}", tcx.visibility(did)));
            o = o.fb("pub", tcx.visibility(did).is_public());
            o = o.fs("sig", with_no_trimmed_paths!(format!("{}", sig)));
        }
        // impl context (for closures: of the root)
        let root = tcx.typeck_root_def_id(did);
        if let Some(t) = tcx.trait_of_assoc(root) {
            o = o.fs("in_trait", path(tcx, t));
        }
        if let Some(i) = tcx.impl_of_assoc(root) {
            let st = tcx.type_of(i).instantiate_identity().skip_norm_wip();
            o = o.fs("impl_self", ty_str(st));
            if let Some(a) = ty_adt(tcx, st) {
                o = o.fs("impl_adt", a);
            }
            if let Some(tr) = tcx.impl_opt_trait_ref(i) {
                o = o.fs("impl_trait", path(tcx, tr.skip_binder().def_id));
            }
            o = o.fb("derived", tcx.is_automatically_derived(i));
            o = o.fs("impl_span", span_str(tcx, tcx.def_span(i)));
        }
        o = o.fi("arg_count", body.arg_count as i128);
        // locals
        let mut names: Vec<Option<String>> = vec![None; body.local_decls.len()];
        let mut dbg = Vec::new();
        for vdi in &body.var_debug_info {
            if let mir::VarDebugInfoContents::Place(p) = &vdi.value {
                if p.projection.is_empty() {
                    names[p.local.index()] = Some(vdi.name.to_string());
                }
                dbg.push(J::obj().fs("n", vdi.name.to_string()).f("p", self.place(body, did, p)).done());
            }
        }
        let locals: Vec<J> = body
            .local_decls
            .iter_enumerated()
            .map(|(l, d)| {
                let mut lo = J::obj().fs("ty", ty_str(d.ty));
                lo = lo.f("shape", ty_shape(tcx, d.ty, 0));
                if let Some(a) = ty_adt(tcx, d.ty) {
                    lo = lo.fs("adt", a);
                }
                if let Some(n) = &names[l.index()] {
                    lo = lo.fs("name", n.clone());
                }
                lo.done()
            })
            .collect();
        o = o.f("locals", J::Arr(locals));
        o = o.f("debug", J::Arr(dbg));
        let blocks: Vec<J> = body
            .basic_blocks
            .iter()
            .map(|bbd| {
                let stmts: Vec<J> = bbd
                    .statements
                    .iter()
                    .filter_map(|s| {
                        let sp = s.source_info.span;
                        match &s.kind {
                            StatementKind::Assign(b) => Some(
                                J::obj()
                                    .fs("k", "assign")
                                    .f("p", self.place(body, did, &b.0))
                                    .f("r", self.rvalue(body, did, &b.1))
                                    .fs("s", span_str(tcx, sp))
                                    .fb("x", sp.from_expansion())
                                    .done(),
                            ),
                            StatementKind::SetDiscriminant { place, variant_index } => Some(
                                J::obj()
                                    .fs("k", "setdiscr")
                                    .f("p", self.place(body, did, place))
                                    .fi("vi", variant_index.index() as i128)
                                    .fs("s", span_str(tcx, sp))
                                    .done(),
                            ),
                            StatementKind::Intrinsic(i) => Some(
                                J::obj()
                                    .fs("k", "intrinsic")
                                    .fs("text", format!("{:?}", i).chars().take(100).collect::<String>())
                                    .fs("s", span_str(tcx, sp))
                                    .done(),
                            ),
                            _ => None,
                        }
                    })
                    .collect();
                J::obj()
                    .f("stmts", J::Arr(stmts))
                    .f("term", self.terminator(body, did, bbd.terminator()))
                    .fb("cleanup", bbd.is_cleanup)
                    .done()
            })
            .collect();
        o = o.f("blocks", J::Arr(blocks));
        o.done()
    }
}

pub fn dump<'tcx>(tcx: TyCtxt<'tcx>, krate: &str) {
    let cx = Cx { tcx };
    let is_test = tcx.sess.opts.test;
    let mut top = J::obj();
    top = top.fs("nonce", std::env::var("RSV_NONCE").unwrap_or_default());
    top = top.fs("crate", krate);
    top = top.fb("test", is_test);
    top = top.fs("rustc", rustc_interface::util::rustc_version_str().unwrap_or("unknown").to_string());
    top = top.fb("overflow_checks", tcx.sess.overflow_checks());
    top = top.fb("debug_assertions", tcx.sess.opts.debug_assertions);
    top = top.fb("ub_checks", tcx.sess.ub_checks());

    // ---- bodies
    let mut bodies = Vec::new();
    let mut consts = Vec::new();
    for def in tcx.hir_body_owners() {
        let did = def.to_def_id();
        match tcx.def_kind(did) {
            DefKind::Fn | DefKind::AssocFn | DefKind::Closure => {
                if !tcx.is_mir_available(did) {
                    continue;
                }
                let body = tcx.optimized_mir(did);
                bodies.push(cx.body(def, body, None));
                for (i, p) in tcx.promoted_mir(did).iter_enumerated() {
                    bodies.push(cx.body(def, p, Some(i.index())));
                }
            }
            DefKind::Const { .. } | DefKind::Static { .. } | DefKind::AssocConst { .. } => {
                let ty = tcx.type_of(did).instantiate_identity().skip_norm_wip();
                let mut o = J::obj().fs("path", path(tcx, did)).fs("ty", ty_str(ty));
                o = o.fs("name", tcx.opt_item_name(did).map(|s| s.to_string()).unwrap_or_default());
                o = o.fs("span", span_str(tcx, tcx.def_span(did)));
                o = o.fs("kind", format!("{:?}", tcx.def_kind(did)));
                if tcx.generics_of(did).is_empty() && !matches!(tcx.def_kind(did), DefKind::Static { .. }) {
                    if let Ok(v) = tcx.const_eval_poly(did) {
                        o = cx.const_value(o, v, ty);
                    }
                }
                consts.push(o.done());
            }
            _ => {}
        }
    }
    top = top.f("bodies", J::Arr(bodies));
    top = top.f("consts", J::Arr(consts));

    // ---- ADTs, impls, unsafe inventory from HIR
    let mut adts = Vec::new();
    let mut impls = Vec::new();
    let mut traits = Vec::new();
    let items = tcx.hir_crate_items(());
    for id in items.free_items() {
        let did = id.owner_id.to_def_id();
        match tcx.def_kind(did) {
            DefKind::Struct | DefKind::Enum | DefKind::Union => {
                let def = tcx.adt_def(did);
                let env = TypingEnv::post_analysis(tcx, did);
                let mut o = J::obj().fs("path", path(tcx, did)).fs("kind", format!("{:?}", tcx.def_kind(did)));
                o = o.fs("name", tcx.item_name(did).to_string());
                o = o.fs("span", span_str(tcx, tcx.def_span(did)));
                o = o.fb("pub", tcx.visibility(did).is_public());
                o = o.fb("reachable_pub", tcx.effective_visibilities(()).is_reachable(id.owner_id.def_id));
                let vars: Vec<J> = def
                    .variants()
                    .iter()
                    .map(|v| {
                        let fields: Vec<J> = v
                            .fields
                            .iter()
                            .map(|f| {
                                let fty = tcx.type_of(f.did).instantiate_identity().skip_norm_wip();
                                let mut fo = J::obj().fs("name", f.name.to_string()).fs("ty", ty_str(fty));
                                fo = fo.f("shape", ty_shape(tcx, fty, 0));
                                fo = fo.fs("vis", format!("{:?}", f.vis));
                                fo = fo.fb("pub", f.vis.is_public());
                                fo = fo.fb("freeze", fty.is_freeze(tcx, env));
                                fo = fo.fb("copy", tcx.type_is_copy_modulo_regions(env, fty));
                                if let Some(a) = ty_adt(tcx, fty) {
                                    fo = fo.fs("adt", a);
                                }
                                fo.done()
                            })
                            .collect();
                        J::obj().fs("name", v.name.to_string()).f("fields", J::Arr(fields)).done()
                    })
                    .collect();
                o = o.f("variants", J::Arr(vars));
                adts.push(o.done());
            }
            DefKind::Impl { .. } => {
                let st = tcx.type_of(did).instantiate_identity().skip_norm_wip();
                let mut o = J::obj().fs("self_ty", ty_str(st)).fs("span", span_str(tcx, tcx.def_span(did)));
                o = o.f("self_shape", ty_shape(tcx, st, 0));
                if let Some(a) = ty_adt(tcx, st) {
                    o = o.fs("self_adt", a);
                }
                if let Some(tr) = tcx.impl_opt_trait_ref(did) {
                    let tr = tr.skip_binder();
                    o = o.fs("trait", path(tcx, tr.def_id));
                    o = o.fs("trait_ref", with_no_trimmed_paths!(format!("{}", tr)));
                    let hdr = tcx.impl_trait_header(did);
                    o = o.fb("unsafe", hdr.safety.is_unsafe());
                    o = o.fb("negative", matches!(hdr.polarity, ty::ImplPolarity::Negative));
                }
                o = o.fb("derived", tcx.is_automatically_derived(did));
                o = o.fb("from_expansion", tcx.def_span(did).from_expansion());
                let its: Vec<J> = tcx
                    .associated_items(did)
                    .in_definition_order()
                    .map(|ai| J::obj().fs("name", ai.opt_name().map(|s| s.to_string()).unwrap_or_default()).fs("path", path(tcx, ai.def_id)).done())
                    .collect();
                o = o.f("items", J::Arr(its));
                impls.push(o.done());
            }
            DefKind::Trait => {
                let mut o = J::obj().fs("path", path(tcx, did));
                o = o.fb("pub", tcx.visibility(did).is_public());
                o = o.fb("reachable_pub", tcx.effective_visibilities(()).is_reachable(id.owner_id.def_id));
                o = o.fb("unsafe", tcx.trait_def(did).safety.is_unsafe());
                traits.push(o.done());
            }
            _ => {}
        }
    }
    top = top.f("adts", J::Arr(adts));
    top = top.f("impls", J::Arr(impls));
    top = top.f("traits", J::Arr(traits));

    // ---- unsafe blocks (HIR)
    let mut ub = Vec::new();
    for def in tcx.hir_body_owners() {
        let body = tcx.hir_body_owned_by(def);
        let mut v = UnsafeVisitor { tcx, out: &mut ub, owner: def };
        rustc_hir::intravisit::Visitor::visit_body(&mut v, body);
    }
    top = top.f("unsafe_blocks", J::Arr(ub));

    let mut s = String::with_capacity(1 << 24);
    top.done().write(&mut s);
    let dir = std::env::var("RSV_OUT").unwrap_or_else(|_| ".".to_string());
    let file = format!("{}/facts-{}-{}.json", dir, krate, if is_test { "test" } else { "lib" });
    std::fs::write(&file, s).expect("write facts");
}

struct UnsafeVisitor<'a, 'tcx> {
    tcx: TyCtxt<'tcx>,
    out: &'a mut Vec<J>,
    owner: LocalDefId,
}

impl<'a, 'tcx> rustc_hir::intravisit::Visitor<'tcx> for UnsafeVisitor<'a, 'tcx> {
    fn visit_block(&mut self, b: &'tcx rustc_hir::Block<'tcx>) {
        if let rustc_hir::BlockCheckMode::UnsafeBlock(src) = b.rules {
            let tcx = self.tcx;
            self.out.push(
                J::obj()
                    .fs("owner", path(tcx, self.owner.to_def_id()))
                    .fs("root", path(tcx, tcx.typeck_root_def_id(self.owner.to_def_id())))
                    .fs("span", span_str(tcx, b.span))
                    .fi("end_line", span_end_line(tcx, b.span))
                    .fb("user", matches!(src, rustc_hir::UnsafeSource::UserProvided))
                    .fb("x", b.span.from_expansion())
                    .done(),
            );
        }
        rustc_hir::intravisit::walk_block(self, b);
    }
}
