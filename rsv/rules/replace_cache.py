"""C05 / C18: coherence of ReplaceSource's lazily sorted order.

RESET, FRESH, ORDERED-READ, SORTKEY, PUBLISH-ORDER  (DESIGN §5 C05, C18)
"""
from ..core import RuleResult
from ..ir import access_paths, walk, callee_matches, strip, inline
from .. import anchors

STABLE_SORTS = {'sorted_by', 'sorted_by_key', 'sort_by', 'sort_by_key', 'sort_by_cached_key',
                'sorted_by_cached_key', 'sorted', 'sort'}
UNSTABLE_SORTS = {'sort_unstable', 'sort_unstable_by', 'sort_unstable_by_key', 'sorted_unstable',
                  'sorted_unstable_by', 'sorted_unstable_by_key', 'select_nth_unstable',
                  'select_nth_unstable_by', 'select_nth_unstable_by_key'}
WHOLE_VALUE = {'eq', 'ne', 'clone', 'is_empty', 'len', 'capacity', 'clone_from', 'fmt'}
ELEMENT_READ = {'index', 'get', 'get_unchecked'}


def self_field_path(body, expr, adt_fields_ok=None):
    """access paths of expr rooted at an argument (self or otherwise) or closure upvar;
    returns list of tuples (root_kind, fields)"""
    out = []
    for root, fs in access_paths(expr):
        out.append((root, fs))
    return out


def groups(facts):
    """root function -> [root body + closure bodies]"""
    g = {}
    for b in facts.body_list:
        if b.promoted is not None:
            continue
        root = b.d.get('root') or b.path
        g.setdefault(root, []).append(b)
    return g


def is_atomic_store(c):
    return c is not None and c.get('name') == 'store' and 'atomic' in c.get('path', '')


def is_atomic_load(c):
    return c is not None and c.get('name') == 'load' and 'atomic' in c.get('path', '')


def expr_touches_field(expr, field):
    for root, fs in access_paths(expr):
        if fs and fs[0] == field or field in fs:
            return True
    return False


def expr_mentions_field(expr, field, owner=None):
    for e in walk(expr):
        if e[0] == 'field' and e[2] == field and (owner is None or e[3] == owner):
            return True
    return False


def flag_events(body, A):
    """(point, value) for every event setting the flag: value True/False/None(unknown)"""
    ev = []
    for pt, t in body.calls():
        c = t.get('callee')
        if is_atomic_store(c):
            e = body.expr_of_operand(t['args'][0])
            if expr_mentions_field(e, A['is_sorted'], A['adt']):
                v = t['args'][1]
                val = v.get('bool') if v['k'] == 'const' else None
                ev.append((pt, val, t))
        elif c is not None and c.get('name') in ('swap', 'fetch_or', 'fetch_and', 'fetch_xor', 'fetch_nand',
                                                  'compare_exchange', 'compare_exchange_weak', 'fetch_update') \
                and 'atomic' in c.get('path', ''):
            e = body.expr_of_operand(t['args'][0])
            if expr_mentions_field(e, A['is_sorted'], A['adt']):
                ev.append((pt, None, t))
    # direct writes of the field (self.is_sorted = AtomicBool::new(x)) or through get_mut
    for pt, role, pl, node, rest in body.field_accesses(A['adt'], A['is_sorted']):
        if role == 'write' and node['k'] == 'assign':
            r = node['r']
            val = None
            if r['k'] == 'use':
                e = body.expr_of_operand(r['o'])
                if e[0] == 'call' and e[1].endswith('::new') and e[2] and e[2][0][0] == 'const':
                    val = e[2][0][1]
            ev.append((pt, val, node))
    for pt, s in body.points():
        if s['k'] == 'assign' and s['p']['pr'] == ['*']:
            e = body.expr_of_local(s['p']['l'])
            if e[0] == 'call' and e[1].endswith('::get_mut') and expr_mentions_field(e, A['is_sorted'], A['adt']):
                r = s['r']
                val = r['o'].get('bool') if r['k'] == 'use' and r['o']['k'] == 'const' else None
                ev.append((pt, val, s))
    return ev


def index_writes(body, A):
    """points that write the cached index (through the mutex guard or directly)"""
    out = []
    for pt, s in body.points():
        if s['k'] == 'assign' and s['p']['pr'] and s['p']['pr'][0] == '*':
            e = body.expr_of_local(s['p']['l'])
            if expr_mentions_field(e, A['sorted_index'], A['adt']):
                out.append((pt, s, body.expr_of_operand(s['r']['o']) if s['r']['k'] == 'use' else None))
        elif s['k'] == 'call':
            c = s.get('callee')
            if c and c.get('name') in ('extend', 'push', 'clone_from', 'append', 'insert', 'extend_from_slice',
                                       'resize', 'truncate', 'clear', 'swap', 'replace', 'take') and s['args']:
                e = body.expr_of_operand(s['args'][0])
                if expr_mentions_field(e, A['sorted_index'], A['adt']) and c.get('name') != 'clear':
                    val = body.expr_of_operand(s['args'][1]) if len(s['args']) > 1 else None
                    out.append((pt, s, val))
    for pt, role, pl, node, rest in body.field_accesses(A['adt'], A['sorted_index']):
        if role == 'write' and node['k'] == 'assign':
            out.append((pt, node, body.expr_of_operand(node['r']['o']) if node['r']['k'] == 'use' else None))
    return out


def reset_points(f, b, A, depth=0):
    """points of b after which the sorted-flag is false: direct reset events, or calls of crate-local functions that reset the
    flag on every path through them"""
    pts = [pt for pt, val, _ in flag_events(b, A) if val is False]
    if depth < 2:
        for pt, t in b.calls():
            c = t.get('callee')
            g = f.body(c.get('resolved') or c['path']) if c else None
            if g is not None and g.key != b.key and g.d['kind'] != 'Closure':
                if any(g.postdominates(rp, (0, 0)) for rp in reset_points(f, g, A, depth + 1)):
                    pts.append(pt)
    return pts


def callers_reset(f, fn, A, depth=0):
    """every call site of the (private) function fn is post-dominated by a reset in its caller (or the caller is itself a private
    helper whose callers do)"""
    sites = []
    for cb in f.body_list:
        if cb.promoted is not None:
            continue
        for pt, t in cb.calls():
            c = t.get('callee')
            if c and (c.get('resolved') or c['path']) == fn.key:
                sites.append((cb, pt))
    if not sites:
        return False, 'the function has no caller'
    for cb, pt in sites:
        if any(cb.postdominates(rp, pt) for rp in reset_points(f, cb, A)):
            continue
        root = f.body(cb.d.get('root') or cb.path) or cb
        if depth < 2 and not root.d.get('pub') and 'impl_trait' not in root.d and callers_reset(f, root, A, depth + 1)[0]:
            continue
        return False, 'caller %s does not reset the flag after the call' % cb.path
    return True, 'every caller resets the flag after the call'


def rule_reset(ctx):
    f = ctx.facts()
    r = RuleResult('RESET', 'every mutation of the replacement list resets the cached sort order '
                            '(the result never depends on which observers ran in between)')
    r.floor = 1
    A = anchors.replace_source(f)
    for b in f.body_list:
        if b.promoted is not None:
            continue
        muts = [(pt, role, pl, node) for pt, role, pl, node, rest in b.field_accesses(A['adt'], A['replacements'])
                if role in ('mutref', 'write', 'drop')]
        if not muts:
            continue
        resets = reset_points(f, b, A)
        for pt, role, pl, node in muts:
            ok = any(b.postdominates(rp, pt) for rp in resets)
            how = 'reset post-dominates the mutation'
            if not ok:
                root = f.body(b.d.get('root') or b.path) or b
                if not root.d.get('pub') and 'impl_trait' not in root.d:
                    ok, how = callers_reset(f, root, A)
            site = node.get('s', b.span())
            r.site('%s mutates %s (%s): %s' % (b.path, A['replacements'], role, how), site, 'ok' if ok else 'violation')
            if not ok:
                r.violation('%s:%s' % (b.path, A['replacements']), site, b.path,
                            'this function mutates the replacement list but no `store(false)` on the sorted-flag '
                            'post-dominates the mutation (nor do its callers reset it): replace·observe·mutate·observe returns the stale order',
                            resets=len(resets))
    r.check_floor()
    return r


def rule_fresh(ctx):
    f = ctx.facts()
    r = RuleResult('FRESH', 'the sorted-flag is published as true only after the index computed from the current '
                            'replacement list has been stored; constructors start sorted only when empty')
    r.floor = 2
    A = anchors.replace_source(f)
    for b in f.body_list:
        if b.promoted is not None:
            continue
        for pt, val, node in flag_events(b, A):
            if val is False:
                continue
            site = node.get('s', b.span())
            if val is None:
                r.site('%s sets the flag to a non-constant' % b.path, site, 'violation')
                r.violation('%s:nonconst-flag' % b.path, site, b.path,
                            'sorted-flag set to a value that is not a constant: freshness cannot be shown '
                            '(unrecognised idiom, fail-closed)', reason='unrecognised-idiom')
                continue
            iw = [(ip, s, v) for ip, s, v in index_writes(b, A) if b.dominates(ip, pt)]
            fresh = [x for x in iw if x[2] is not None and expr_mentions_field(x[2], A['replacements'], A['adt'])]
            ok = bool(fresh)
            r.site('%s publishes flag=true' % b.path, site, 'ok' if ok else 'violation',
                   index_writes_dominating=len(iw))
            if not ok:
                r.violation('%s:store-true' % b.path, site, b.path,
                            'flag set to true without a dominating store of an index computed from the '
                            'replacement list: a concurrent or later reader sees `true` with a stale index')
    # constructors
    for b in f.body_list:
        for pt, s in b.points():
            if s['k'] == 'assign' and s['r']['k'] == 'agg' and s['r'].get('path') == A['adt']:
                names = s['r']['fields']
                ops = dict(zip(names, s['r']['ops']))
                fe = b.expr_of_operand(ops[A['is_sorted']])
                re_ = b.expr_of_operand(ops[A['replacements']])
                site = s['s']
                verdict, why = 'violation', None
                if fe[0] == 'call' and fe[1].endswith('::new') and fe[2] and fe[2][0][0] == 'const':
                    if fe[2][0][1] is False:
                        verdict = 'ok'
                    else:
                        # true: replacements must be a fresh empty vector
                        if re_[0] == 'call' and re_[1].rsplit('::', 1)[-1] in ('new', 'default') and not re_[2]:
                            verdict = 'ok'
                        else:
                            why = 'constructed with flag=true but a replacement list that is not provably empty'
                elif any(e[0] == 'call' and e[1].endswith('::load') for e in walk(fe)):
                    # copied pair: PUBLISH-ORDER decides the order of the two reads; the flag may only be copied together with
                    # the index it vouches for
                    ie = b.expr_of_operand(ops[A['sorted_index']])
                    if any(e[0] == 'field' and e[2] == A['sorted_index'] and e[3] == A['adt'] for e in walk(ie)):
                        verdict = 'ok'
                    else:
                        why = 'the sorted-flag is copied from an existing value but the index is not: a clone of an already sorted ' \
                              'source keeps flag=true with an index that was never built for it'
                else:
                    why = 'flag initialiser is neither a constant nor a load of an existing flag (unrecognised idiom)'
                r.site('%s constructs %s' % (b.path, A['adt']), site, verdict)
                if verdict != 'ok':
                    r.violation('%s:construct' % b.path, site, b.path, why)
    r.check_floor()
    return r


def _group_info(f, A):
    info = {}
    for root, bodies in groups(f).items():
        d = {'bodies': bodies, 'order_reads': [], 'elem_reads': [], 'whole_reads': [], 'locks_index': [],
             'index_writes': [], 'flag_true': [], 'flag_loads': [], 'calls': []}
        for b in bodies:
            for pt, t in b.calls():
                c = t.get('callee')
                if not c:
                    continue
                d['calls'].append((b, pt, t))
                if is_atomic_load(c) and expr_mentions_field(b.expr_of_operand(t['args'][0]), A['is_sorted'], A['adt']):
                    d['flag_loads'].append((b, pt, t))
                if t['args']:
                    e = b.expr_of_operand(t['args'][0])
                    is_mut = t['arg_tys'][0].startswith('&mut')
                    if c.get('name') == 'lock' and expr_mentions_field(e, A['sorted_index'], A['adt']):
                        d['locks_index'].append((b, pt, t))
                    # calls whose receiver is (a view of) the replacement vector itself
                    for root_e, fs in access_paths(e):
                        if fs and fs[-1] == A['replacements'] or (len(fs) >= 1 and A['replacements'] in fs
                                                                   and all(x == '[]' for x in fs[fs.index(A['replacements']) + 1:])):
                            if A['replacements'] not in fs:
                                continue
                            tail = fs[fs.index(A['replacements']) + 1:]
                            if tail:
                                continue  # call on an element, not on the vector
                            n = c.get('name')
                            if n in ('deref', 'as_ref', 'borrow', 'as_slice') or is_mut:
                                continue  # views are followed; mutations are RESET's business
                            if n in WHOLE_VALUE:
                                d['whole_reads'].append((b, pt, t))
                            elif n in ELEMENT_READ:
                                d['elem_reads'].append((b, pt, t))
                            else:
                                d['order_reads'].append((b, pt, t))
                            break
            # direct MIR indexing  self.replacements[i]
            for pt, role, pl, node, rest in b.field_accesses(A['adt'], A['replacements']):
                if any(isinstance(x, dict) and ('i' in x or 'ci' in x) for x in rest):
                    d['elem_reads'].append((b, pt, node))
            d['index_writes'] += [(b,) + x for x in index_writes(b, A)]
            d['flag_true'] += [(b, pt, node) for pt, val, node in flag_events(b, A) if val is not False]
        info[root] = d
    return info


def rule_ordered_read(ctx):
    f = ctx.facts()
    r = RuleResult('ORDERED-READ', 'every order-sensitive reader of the replacement list goes through the cached '
                                   'sorted index (after making it fresh); only whole-value uses bypass it')
    r.floor = 3
    A = anchors.replace_source(f)
    info = _group_info(f, A)
    sorters = [root for root, d in info.items() if d['index_writes'] and d['flag_true']]
    for root, d in info.items():
        if not (d['order_reads'] or d['elem_reads'] or d['whole_reads']):
            continue
        is_sorter = root in sorters
        for b, pt, t in d['whole_reads']:
            r.site('%s whole-value use `%s`' % (root, t['callee']['name']), t['s'], 'ok')
        for b, pt, t in d['order_reads']:
            ok = is_sorter
            r.site('%s traverses the list via `%s`' % (root, t['callee']['name']), t['s'], 'ok' if ok else 'violation',
                   sorter=is_sorter)
            if not ok:
                r.violation('%s:%s' % (root, t['callee']['name']), t['s'], root,
                            'iterates the replacement list in insertion order outside the sorter: the observer does '
                            'not see the (start,end,enforce) order')
        for b, pt, t in d['elem_reads']:
            # element reads must be driven by the locked index, which must be made fresh first
            locks = d['locks_index']
            calls_sorter = [(cb, cpt) for cb, cpt, ct in d['calls']
                            if (ct['callee'].get('path') in [s for s in sorters] or
                                any(ct['callee'].get('path', '').replace('::<T>', '') == s.replace('::<T>', '')
                                    for s in sorters))]
            ok = is_sorter or (bool(locks) and any(
                cb is lb and cb.dominates(cpt, lpt) for cb, cpt in calls_sorter for lb, lpt, _ in locks))
            site = t.get('s', b.span())
            r.site('%s reads elements by index' % root, site, 'ok' if ok else 'violation')
            if not ok:
                r.violation('%s:element-read' % root, site, root,
                            'indexes the replacement list without first freshening and locking the sorted index')
    # observers reach the list only via the sorted accessor
    r.check_floor()
    return r


def _replacement_roles(f, A):
    """field roles of the private replacement record, derived from the *public* mutator's parameters:
    replace_with_enforce(&mut self, start, end, content, name, enforce)"""
    cands = [b for b in f.impl_bodies(A['adt']) if b.d.get('pub') and b.arg_count == 6 and 'impl_trait' not in b.d]
    if len(cands) != 1:
        raise anchors.AnchorMissing('public 5-argument mutator of ReplaceSource: found %d' % len(cands))
    b = cands[0]
    roles = {}
    radt = A['replacement_adt']

    def from_agg(names, ops, argmap):
        for n, e in zip(names, ops):
            for x in walk(e):
                if x[0] == 'arg':
                    roles.setdefault(n, argmap(x[1]))
                    break
    for pt, s in b.points():
        if s['k'] == 'assign' and s['r']['k'] == 'agg' and s['r'].get('path') == radt:
            from_agg(s['r']['fields'], [b.expr_of_operand(o) for o in s['r']['ops']], lambda i: i)
        if s['k'] == 'call' and s.get('callee') and s['callee'].get('local'):
            cb = f.body(s['callee']['path'])
            if cb is None:
                continue
            for pt2, s2 in cb.points():
                if s2['k'] == 'assign' and s2['r']['k'] == 'agg' and s2['r'].get('path') == radt:
                    caller_args = [b.expr_of_operand(o) for o in s['args']]

                    def m(i, caller_args=caller_args):
                        e = caller_args[i - 1]
                        for x in walk(e):
                            if x[0] == 'arg':
                                return x[1]
                        return None
                    from_agg(s2['r']['fields'], [cb.expr_of_operand(o) for o in s2['r']['ops']], m)
    inv = {v: k for k, v in roles.items() if v is not None}
    if not all(i in inv for i in (2, 3, 6)):
        raise anchors.AnchorMissing('cannot map start/end/enforce parameters to replacement fields: %r' % roles)
    return {'start': inv[2], 'end': inv[3], 'enforce': inv[6], 'content': inv.get(4), 'name': inv.get(5)}


def _side_fields(body, e):
    """for a comparator operand expression: (param index, field name) if it is `param...field`, or a field of the element of the
    replacement list selected by a parameter (`list[*param].field`)"""
    for root, fs in access_paths(e, through_calls={'deref', 'borrow', 'as_ref', 'clone'}):
        if root[0] == 'arg' and root[3] == body.key and fs:
            return root[1], fs[-1]
    top = e
    while top[0] in ('ref', 'deref', 'cast', 'upvar'):
        top = top[1]
    if top[0] == 'field':
        params = {x[1] for x in walk(top[1]) if x[0] == 'arg' and x[3] == body.key and x[1] >= 2}
        if len(params) == 1:
            return next(iter(params)), top[2]
    return None


def rule_sortkey(ctx):
    f = ctx.facts()
    r = RuleResult('SORTKEY', 'the cached order is a stable sort by (start, end, enforce): insertion order breaks ties')
    r.floor = 3
    A = anchors.replace_source(f)
    roles = _replacement_roles(f, A)
    info = _group_info(f, A)
    sorters = [root for root, d in info.items() if d['index_writes'] and d['flag_true']]
    if len(sorters) != 1:
        r.violation('sorter', '(crate)', '(crate)', 'expected exactly one function that computes and publishes the '
                    'sorted index, found %d' % len(sorters), reason='anchor')
        return r
    d = info[sorters[0]]
    sort_calls = [(b, pt, t) for b, pt, t in d['calls'] if t['callee'].get('name') in STABLE_SORTS | UNSTABLE_SORTS]
    if not sort_calls:
        r.violation('%s:no-sort' % sorters[0], d['bodies'][0].span(), sorters[0],
                    'no recognised sort call in the sorter (unrecognised idiom, fail-closed)', reason='unrecognised-idiom')
        return r
    for b, pt, t in sort_calls:
        n = t['callee']['name']
        stable = n in STABLE_SORTS
        r.site('%s sorts with `%s`' % (sorters[0], n), t['s'], 'ok' if stable else 'violation')
        if not stable:
            r.violation('%s:unstable:%s' % (sorters[0], n), t['s'], sorters[0],
                        'unstable sort: replacements with equal (start,end,enforce) lose insertion order')
        # comparator
        want = [roles['start'], roles['end'], roles['enforce']]
        if n in ('sorted', 'sort'):
            r.site('comparator of %s' % n, t['s'], 'violation')
            r.violation('%s:natural-order' % sorters[0], t['s'], sorters[0],
                        'sort uses the natural order of the elements, not (start,end,enforce)', reason='unrecognised-idiom')
            continue
        cl = None
        for a in t['args'][1:]:
            e = b.expr_of_operand(a)
            for x in walk(e):
                if x[0] == 'agg' and x[1] == 'closure':
                    cl = f.body(x[2])
        if cl is None:
            r.site('comparator of %s' % n, t['s'], 'violation')
            r.violation('%s:comparator' % sorters[0], t['s'], sorters[0], 'comparator is not a closure literal '
                        '(unrecognised idiom)', reason='unrecognised-idiom')
            continue
        ok, why = _check_comparator(cl, want, by_key=n.endswith('_key'))
        r.site('comparator %s compares %s' % (cl.path, want), cl.span(), 'ok' if ok else 'violation')
        if not ok:
            r.violation('%s:comparator' % sorters[0], cl.span(), cl.path, why)
    # the enforce enum: derived Ord, variants declared Pre < Normal < Post
    enf = anchors.adt_by_name(f, 'ReplacementEnforce')
    order = [v['name'] for v in enf['variants']]
    derived = [i for i in f.impls if i.get('self_adt') == enf['path'] and i.get('trait', '').endswith('cmp::Ord')]
    ok = order == ['Pre', 'Normal', 'Post'] and len(derived) == 1 and derived[0]['derived']
    r.site('ReplacementEnforce variant order %s, Ord derived=%s' % (order, bool(derived and derived[0]['derived'])),
           enf['span'], 'ok' if ok else 'violation')
    if not ok:
        r.violation('ReplacementEnforce:order', enf['span'], enf['path'],
                    'enforcement order must be Pre < Normal < Post through a derived Ord')
    r.check_floor()
    return r


def _check_comparator(cl, want, by_key):
    """closure must return cmp of (a.s, a.e, a.f) with (b.s, b.e, b.f), a from param 1 and b from param 2"""
    # find the call producing the return value
    ret = cl.expr_of_local(0)
    alts = ret[1] if ret[0] == 'phi' else (ret,)
    if len(alts) != 1:
        return False, 'comparator has several return expressions (unrecognised idiom)'
    e = alts[0]
    if by_key:
        e = inline(cl.facts, e, depth=2)
        if e[0] == 'agg' and e[1] == 'tuple':
            got = [_side_fields(cl, o) for o in e[5]]
            if all(g is not None for g in got) and [g[1] for g in got] == want:
                return True, None
        return False, 'sort key is not the tuple (start, end, enforce) in that order'

    def tuple_sides(e):
        # e: call cmp(x, y)
        if e[0] != 'call' or e[1].rsplit('::', 1)[-1] not in ('cmp',):
            return None
        sides = []
        for a in e[2][:2]:
            tup = None
            for root, fs in access_paths(a, through_calls={'deref', 'borrow'}):
                if root[0] == 'agg' and root[1] == 'tuple' and not fs:
                    tup = root
            if tup is None:
                # scalar compare
                sf = _side_fields(cl, a)
                if sf is None:
                    return None
                sides.append([sf])
            else:
                got = [_side_fields(cl, o) for o in tup[5]]
                if any(g is None for g in got):
                    return None
                sides.append(got)
        return sides

    def chain(e):
        """flatten cmp(..).then(cmp(..)).then(..) into list of (lhs sides, rhs sides)"""
        if e[0] == 'call' and e[1].rsplit('::', 1)[-1] == 'then' and len(e[2]) == 2:
            l = chain(e[2][0])
            rr = chain(e[2][1])
            if l is None or rr is None:
                return None
            return l + rr
        s = tuple_sides(e)
        if s is None:
            return None
        return [s]
    ch = chain(e)
    if ch is None:
        return False, 'comparator is neither a tuple `cmp` nor a `cmp().then(..)` chain (unrecognised idiom, fail-closed)'
    lhs, rhs = [], []
    for s in ch:
        lhs += s[0]
        rhs += s[1]
    lp = {p for p, _ in lhs}
    rp = {p for p, _ in rhs}
    if len(lp) != 1 or len(rp) != 1 or lp == rp:
        return False, 'comparator sides do not each read one distinct parameter'
    if min(lp) > min(rp):
        return False, 'comparator compares the second argument to the first (descending order)'
    if [n for _, n in lhs] != want or [n for _, n in rhs] != want:
        return False, 'comparator key is %s / %s, expected %s on both sides' % ([n for _, n in lhs], [n for _, n in rhs], want)
    return True, None


def rule_publish_order(ctx):
    f = ctx.facts()
    r = RuleResult('PUBLISH-ORDER', 'readers of the cached index load the sorted-flag first (a true flag guarantees the '
                                    'index read afterwards is the published one); a copy of the pair reads flag before index')
    r.floor = 2
    A = anchors.replace_source(f)
    info = _group_info(f, A)
    sorters = [root for root, d in info.items() if d['index_writes'] and d['flag_true']]

    def norm(p):
        return p.replace('::<T>', '')
    for root, d in info.items():
        if root in sorters or not d['locks_index']:
            continue
        for lb, lpt, lt in d['locks_index']:
            loads = [(b, pt) for b, pt, t in d['flag_loads'] if b is lb]
            loads += [(cb, cpt) for cb, cpt, ct in d['calls'] if cb is lb and
                      any(norm(ct['callee'].get('path', '')) == norm(s) for s in sorters)]
            ok = any(lb.dominates(pt, lpt) for b, pt in loads)
            r.site('%s reads the cached index' % root, lt['s'], 'ok' if ok else 'violation', flag_reads=len(loads))
            if not ok:
                r.violation('%s:index-before-flag' % root, lt['s'], root,
                            'reads the cached index without a dominating load of the sorted-flag (directly or through '
                            'the sorter): racing with the first sort it can pair a stale index with flag=true')
    # sorter side: the sorter itself must test the flag on entry (double-checked)
    for s in sorters:
        d = info[s]
        for b, pt, node in d['flag_true']:
            ok = any(lb is b and lb.dominates(lpt, pt) for lb, lpt, _ in d['flag_loads'])
            r.site('%s double-checks the flag' % s, node.get('s', b.span()), 'ok' if ok else 'violation')
            if not ok:
                r.violation('%s:no-flag-check' % s, node.get('s', b.span()), s,
                            'sorter publishes without first loading the flag')
    r.check_floor()
    return r


# ---------------------------------------------------------------------------------- CLAMP (C05, C17)

def _clamped(e, depth=0):
    """is this slice bound provably <= len(inner text)?  const 0 | len(..) | min(_, len-derived) | casts/phis thereof"""
    if depth > 40:
        return False
    k = e[0]
    if k == 'const':
        return e[1] == 0
    if k in ('cast', 'ref', 'deref', 'upvar'):
        return _clamped(e[1], depth + 1)
    if k == 'phi':
        return all(_clamped(a, depth + 1) for a in e[1])
    if k == 'cycle':
        return True   # the value itself, already accounted for by the other alternatives of the phi
    if k == 'call':
        n = e[1].rsplit('::', 1)[-1]
        if n == 'len':
            return True
        if n in ('min', 'clamp'):
            args = e[2][1:] if n == 'clamp' else e[2]
            return any(_has_len(a) for a in args) or all(_clamped(a, depth + 1) for a in e[2])
        if n in ('into', 'from', 'try_into', 'unwrap', 'unwrap_or', 'clone'):
            return all(_clamped(a, depth + 1) for a in e[2])
        return False
    return False


def _has_len(e):
    return any(x[0] == 'call' and x[1].rsplit('::', 1)[-1] == 'len' for x in walk(e))


def rule_clamp(ctx):
    f = ctx.facts()
    r = RuleResult('CLAMP', 'positions beyond the end are clamped: every bound with which ReplaceSource slices the inner text in source() / '
                            'rope() is 0, the inner length, or passes through min(_, inner length) — an unclamped cursor panics for '
                            'replacements that lie beyond the end')
    r.floor = 4
    A = anchors.replace_source(f)
    tr = anchors.trait_path(f, 'Source')
    bodies = [b for b in f.body_list if b.promoted is None and b.d['kind'] != 'Closure' and b.d.get('impl_adt') == A['adt']
              and b.d.get('impl_trait') == tr and b.name in ('source', 'rope', 'buffer', 'size', 'to_writer')]
    # round 10: every content view is in scope (a view that re-implements the splice loop instead of deriving from source() slices the
    # inner text itself); source() and rope() are the two that do so today
    if not {'source', 'rope'} <= {b.name for b in bodies}:
        raise anchors.AnchorMissing('ReplaceSource::source / rope: %d' % len(bodies))
    for b in bodies:
        for pt, t in b.calls():
            c = t.get('callee')
            if not c or len(t['args']) < 2:
                continue
            n = c['name']
            is_slice = (n == 'index' and any(k in t['arg_tys'][0] for k in ('str', 'String', '[u8]', 'Vec<u8>')) and 'Range' in t['arg_tys'][1]) or \
                       (n in ('byte_slice', 'get_byte_slice', 'byte_slice_unchecked', 'get') and 'Range' in t['arg_tys'][1])
            if not is_slice:
                continue
            rng = b.expr_of_operand(t['args'][1])
            bounds = []
            for x in strip(rng, through_calls=set()) if False else [rng]:
                for y in walk(x):
                    if y[0] == 'agg' and y[2] and 'ops::Range' in y[2]:
                        bounds = list(zip(y[4], y[5]))
                        break
            if not bounds:
                r.site('%s: slice with a non-literal range' % b.path, t['s'], 'violation')
                r.violation('%s:range' % b.path, t['s'], b.path, 'slice range is not a range literal (unrecognised idiom)', reason='unrecognised-idiom')
                continue
            for name, e in bounds:
                from ..ir import inline as _inline
                ok = _clamped(e) or _clamped(_inline(f, e, depth=2, keep=('len', 'size')))      # the clamp may live in a private helper function
                r.site('%s: slice bound `%s` is clamped to the inner length' % (b.path, name), t['s'], 'ok' if ok else 'violation')
                if not ok:
                    r.violation('%s:%s' % (b.path, name), t['s'], b.path,
                                'slice bound `%s` of the inner text is not clamped to its length: a replacement that lies beyond the end '
                                '(in the documented domain) makes %s() panic' % (name, b.name))
    r.check_floor()
    return r


# ---------------------------------------------------------------------------------- SIBLING-SPLICE (C01, C05, C07)

def _norm(e, adt_repl, depth=0):
    """normalised skeleton of a position expression: leaves are CUR (the loop-carried cursor), LEN, ZERO, F:<replacement field>"""
    if depth > 40:
        return ('?',)
    k = e[0]
    if k == 'const':
        return ('ZERO',) if e[1] == 0 else ('K', e[1])
    if k in ('cast', 'ref', 'deref', 'upvar'):
        return _norm(e[1], adt_repl, depth + 1)
    if k == 'cycle':
        return ('CUR',)
    if k == 'phi':
        alts = sorted({_norm(a, adt_repl, depth + 1) for a in e[1]} - {('ZERO',), ('CUR',)})
        if not alts:
            return ('CUR',)
        return alts[0] if len(alts) == 1 else ('PHI',) + tuple(alts)
    if k == 'field':
        if e[3] == adt_repl:
            return ('F', e[2])
        return _norm(e[1], adt_repl, depth + 1)
    if k == 'call':
        n = e[1].rsplit('::', 1)[-1]
        if n == 'len':
            return ('LEN',)
        if n in ('min', 'max'):
            return (n,) + tuple(sorted(_norm(a, adt_repl, depth + 1) for a in e[2]))
        if n == 'clamp' and len(e[2]) == 3:
            return ('min', *sorted([('max', *sorted([_norm(e[2][0], adt_repl, depth + 1), _norm(e[2][1], adt_repl, depth + 1)])),
                                   _norm(e[2][2], adt_repl, depth + 1)]))
        if n in ('into', 'from', 'clone', 'try_into', 'unwrap'):
            return _norm(e[2][0], adt_repl, depth + 1)
        return ('call', n)
    if k == 'bin':
        return ('bin', e[1], _norm(e[2], adt_repl, depth + 1), _norm(e[3], adt_repl, depth + 1))
    return (k,)


def rule_sibling_splice(ctx):
    f = ctx.facts()
    r = RuleResult('SIBLING-SPLICE', 'the two splice implementations of ReplaceSource — source() over a string and rope() over a rope — slice the '
                                     'inner text with the same position skeleton (cursor := min(max(cursor, end), len); copy up to min(start, len)), '
                                     'modulo min/max commutativity and clamp(): if they differ, rope() does not render to source()')
    r.floor = 2
    A = anchors.replace_source(f)
    tr = anchors.trait_path(f, 'Source')
    sk = {}
    for name in ('source', 'rope'):
        bs = [b for b in f.body_list if b.promoted is None and b.d['kind'] != 'Closure' and b.d.get('impl_adt') == A['adt']
              and b.d.get('impl_trait') == tr and b.name == name]
        if len(bs) != 1:
            raise anchors.AnchorMissing('ReplaceSource::%s' % name)
        b = bs[0]
        bounds = set()
        for pt, t in b.calls():
            c = t.get('callee')
            if not c or len(t['args']) < 2 or 'Range' not in t['arg_tys'][1]:
                continue
            if c['name'] not in ('index', 'byte_slice', 'get_byte_slice', 'get', 'byte_slice_unchecked'):
                continue
            for y in walk(b.expr_of_operand(t['args'][1])):
                if y[0] == 'agg' and y[2] and 'ops::Range' in y[2]:
                    present = set()
                    for nm, e in zip(y[4], y[5]):
                        from ..ir import inline as _inline
                        bounds.add((nm, _norm(_inline(f, e, depth=2, keep=('len', 'size')), A['replacement_adt'])))
                        present.add(nm)
                    # open-ended ranges: a missing end is the length, a missing start is 0
                    if 'end' not in present and 'RangeFull' not in y[2]:
                        bounds.add(('end', ('LEN',)))
                    if 'start' not in present:
                        bounds.add(('start', ('ZERO',)))
                    break
        sk[name] = (b, bounds)
        r.site('%s: slice-bound skeletons %s' % (b.path, sorted(bounds)), b.span(), 'ok')
        # "everything up to its end counts as consumed": the cursor a slice starts at only moves forward, cursor := max(cursor, end)
        def has_monotone(e):
            if isinstance(e, tuple) and e and e[0] == 'max':
                flat = repr(e)
                if "('CUR',)" in flat and "('F', 'end')" in flat:
                    return True
            return isinstance(e, tuple) and any(has_monotone(x) for x in e if isinstance(x, tuple))
        starts = [e for nm, e in bounds if nm == 'start' and e != ('ZERO',)]
        mono = bool(starts) and all(has_monotone(e) for e in starts)
        r.site('%s: the copy cursor is max(cursor, replacement end): consumed text is never copied again' % b.path, b.span(),
               'ok' if mono else 'violation')
        if not mono:
            r.violation('cursor:%s' % name, b.span(), b.path,
                        'the position a copy starts from is not max(previous position, replacement end) (found %s): with nested or '
                        'overlapping replacements already consumed inner text is copied again' % sorted(starts))
    (bs_, s1), (br_, s2) = sk['source'], sk['rope']
    if s1 != s2:
        only1, only2 = sorted(s1 - s2), sorted(s2 - s1)
        r.sites[-2]['verdict'] = 'violation'
        r.violation('skeleton', br_.span(), br_.path,
                    'source() and rope() slice the inner text with different position skeletons (source only: %s; rope only: %s): for '
                    'nested / overlapping replacements the rope no longer renders to source()' % (only1, only2))
    r.check_floor()
    return r
