#!/usr/bin/env python3
"""Self-test of the KNOWN-FINDING path (the committed known_findings.json has no open entry, so the path would otherwise
never run): on a scratch copy of /repo with two C20 canaries applied, and a temporary known-findings file listing ONE of the
two keys, `bin/check C20` must print a KNOWN-FINDING line for the listed key, a VIOLATION line for the other, and exit 1;
with both listed it must exit 0."""
import json, os, subprocess, sys, tempfile, shutil
V = os.path.dirname(os.path.dirname(os.path.abspath(__file__)))
sys.path.insert(0, V)
from rsv.thorough import scratch_copy, apply_patch
base, dst = scratch_copy('/repo', 'selftest-known')
try:
    for c in ('prefix-F7-hash-omits-debugid.diff', 'hash-drops-name.diff'):
        ok, out = apply_patch(dst, os.path.join(V, 'canaries', c))
        assert ok, out
    k1 = 'HASHCOVER:source::SourceMap:debug_id'
    k2 = 'HASHCOVER:original_source::OriginalSource:name'
    res = []
    for listed, want_rc in (([k1], 1), ([k1, k2], 0)):
        kf = os.path.join(base, 'known.json')
        committed = json.load(open(os.path.join(V, 'known_findings.json'))).get('open', [])   # the genuine open entries stay listed
        json.dump({'open': committed + [{'property': 'C20', 'key': k, 'what': 'selftest'} for k in listed], 'fixed': []}, open(kf, 'w'))
        r = subprocess.run([os.path.join(V, 'bin', 'check'), 'C20', '--repo', dst, '--no-evidence'], capture_output=True, text=True,
                           env=dict(os.environ, RSV_KNOWN_FINDINGS=kf))
        known = [l for l in r.stdout.splitlines() if l.startswith('KNOWN-FINDING:') and any(k in l for k in (k1, k2))]
        viol = [l for l in r.stdout.splitlines() if l.startswith('VIOLATION')]
        ok = r.returncode == want_rc and len(known) == len(listed) and (len(viol) == 2 - len(listed))
        res.append(ok)
        print('listed=%d rc=%d known=%d violations=%d -> %s' % (len(listed), r.returncode, len(known), len(viol), 'ok' if ok else 'FAIL'))
    sys.exit(0 if all(res) else 1)
finally:
    shutil.rmtree(base, ignore_errors=True)
    subprocess.run(['rm', '-rf', os.path.join(V, 'reports')])
