"""TABLES, ALPHABET  (C12, C11, C19): base64-VLQ tables and the byte alphabet of the mappings buffer."""
from ..core import RuleResult
from ..ir import access_paths, walk
from .. import anchors

V3 = b'ABCDEFGHIJKLMNOPQRSTUVWXYZabcdefghijklmnopqrstuvwxyz0123456789+/'
NON_SOURCES = {'take', 'clear', 'len', 'is_empty', 'reserve', 'capacity', 'as_slice', 'deref', 'drop', 'shrink_to_fit',
               'with_capacity', 'new', 'default', 'truncate'}
BYTE_SOURCES = {'push', 'extend', 'extend_from_slice'}
ITER_PASS = {'repeat', 'take', 'copied', 'cloned', 'iter', 'into_iter', 'repeat_n', 'chain', 'by_ref', 'deref', 'as_slice'}
TOP = None


def tables(f):
    enc = [c for c in f.consts.values() if 'bytes' in c and len(c['bytes']) == 64 and 'u8' in c['ty']]
    dec = [c for c in f.consts.values() if 'bytes' in c and len(c['bytes']) == 256 and c['ty'] == '[u8; 256]']
    if len(enc) != 1 or len(dec) != 1:
        raise anchors.AnchorMissing('base64 tables: %d encoder (64-byte) and %d decoder ([u8;256]) constants' % (len(enc), len(dec)))
    return enc[0], dec[0]


def rule_tables(ctx):
    f = ctx.facts()
    r = RuleResult('TABLES', 'the encoder alphabet equals the source-map v3 / RFC 4648 base64 alphabet and the decoder table is '
                             'its exact inverse; "," and ";" decode to two distinct separator codes; every other byte is invalid '
                             '(exhaustive over 64 + 256 entries, const-evaluated by the compiler)')
    r.sound = True
    r.floor = 64 + 256
    enc, dec = tables(f)
    E, D = bytes(enc['bytes']), bytes(dec['bytes'])
    for i in range(64):
        ok = E[i] == V3[i] and D[E[i]] == i
        r.site('encoder[%d] = %r; decoder[%r] = %d' % (i, chr(E[i]), chr(E[i]), D[E[i]]), enc['span'], 'ok' if ok else 'violation')
        if not ok:
            r.violation('entry:%d' % i, enc['span'], enc['path'],
                        'base64 digit %d: encoder writes %r (v3 format says %r), decoder maps it back to %d' %
                        (i, chr(E[i]), chr(V3[i]), D[E[i]]))
    comma, semi = D[ord(',')], D[ord(';')]
    others = {D[b] for b in range(256) if b not in E and b not in (ord(','), ord(';'))}
    for b in range(256):
        if b in E:
            ok = D[b] < 64
        elif b in (ord(','), ord(';')):
            ok = D[b] >= 64 and comma != semi and D[b] not in others
        else:
            ok = len(others) == 1 and D[b] >= 64
        r.site('decoder[0x%02x] = %d' % (b, D[b]), dec['span'], 'ok' if ok else 'violation')
        if not ok:
            r.violation('decoder:0x%02x' % b, dec['span'], dec['path'],
                        'decoder table entry for byte 0x%02x (%r) is %d: not consistent with the v3 format '
                        '(digits < 64, two distinct separators, one invalid code)' % (b, chr(b), D[b]))
    r.check_floor()
    return r


def byteset(body, e, consts, depth=0):
    """set of byte values expression e may evaluate to / iterate over; None = unknown (top)"""
    if depth > 30:
        return TOP
    k = e[0]
    if k == 'const':
        v = e[1]
        if isinstance(v, bool):
            return TOP
        if isinstance(v, int):
            return {v} if 0 <= v < 256 else TOP
        if isinstance(v, tuple):
            return set(v)
        return TOP
    if k == 'item':
        c = consts.get(e[1])
        return set(c['bytes']) if c and 'bytes' in c else TOP
    if k in ('ref', 'deref', 'cast') and k != 'cast':
        return byteset(body, e[1], consts, depth + 1)
    if k in ('index', 'cindex'):
        return byteset(body, e[1], consts, depth + 1)
    if k == 'phi':
        out = set()
        for a in e[1]:
            s = byteset(body, a, consts, depth + 1)
            if s is TOP:
                return TOP
            out |= s
        return out
    if k == 'call' and e[1].rsplit('::', 1)[-1] in ITER_PASS and e[2]:
        if e[1].rsplit('::', 1)[-1] == 'chain':
            a, b = byteset(body, e[2][0], consts, depth + 1), byteset(body, e[2][1], consts, depth + 1)
            return TOP if a is TOP or b is TOP else a | b
        return byteset(body, e[2][0], consts, depth + 1)
    return TOP


def find_buffers(f):
    """(adt, field) of every Vec<u8> whose taken content flows into from_utf8_unchecked (also through a helper function that
    receives the buffer as a parameter)"""
    bufs = {}

    def fields_of(b, e, depth=0):
        out = []
        for x in walk(e):
            if x[0] == 'field' and x[3] in f.adts:
                out.append((x[3], x[2]))
        if not out and depth < 2:
            for x in walk(e):
                if x[0] == 'arg' and x[3] == (b.d.get('root') or b.path) and b.d['kind'] != 'Closure':
                    for cb in f.body_list:
                        if cb.promoted is not None:
                            continue
                        for cpt, ct in cb.calls():
                            cc = ct.get('callee')
                            if cc and (cc.get('resolved') or cc['path']) == b.key and x[1] - 1 < len(ct['args']):
                                out += fields_of(cb, cb.expr_of_operand(ct['args'][x[1] - 1]), depth + 1)
        return out
    for b in f.body_list:
        for pt, t in b.calls():
            c = t.get('callee')
            if c and c['name'] == 'from_utf8_unchecked':
                e = b.expr_of_operand(t['args'][0])
                fl = fields_of(b, e)
                for k in fl:
                    bufs.setdefault(k, []).append((b, t))
                if not fl:
                    bufs.setdefault((None, None), []).append((b, t))
    return bufs


def rule_alphabet(ctx):
    f = ctx.facts()
    r = RuleResult('ALPHABET', 'every byte that can be written into an encoder\'s mappings buffer is a base64 digit, "," or ";" — '
                               'so the mappings string is made only of those characters and from_utf8_unchecked receives ASCII only '
                               '(sound over-approximation of all writers of the buffer)')
    r.sound = True
    r.floor = 20
    consts = f.consts
    allowed = set(V3) | {ord(','), ord(';')}
    bufs = find_buffers(f)
    if (None, None) in bufs:
        for b, t in bufs[(None, None)]:
            r.site('%s: from_utf8_unchecked argument' % b.path, t['s'], 'violation')
            r.violation('%s:unchecked-arg' % b.path, t['s'], b.path,
                        'from_utf8_unchecked receives bytes that do not come from an encoder buffer field (cannot bound them)')
    real = {k: v for k, v in bufs.items() if k[0] is not None}
    if not real:
        raise anchors.AnchorMissing('no Vec<u8> field flows into from_utf8_unchecked')
    # handles: (body key, root descriptor)
    handles_arg = {}   # body.path -> set(arg index) that receive a buffer
    changed = True

    def is_buffer_expr(b, e):
        for root, fs in access_paths(e, through_calls={'deref', 'deref_mut', 'as_mut', 'borrow_mut'}):
            if fs and any((adt, fs[-1]) in real for adt in [x[3] for x in walk(e) if x[0] == 'field' and x[2] == fs[-1]]):
                return True
            if root[0] == 'arg' and not fs and root[1] in handles_arg.get(b.path, set()):
                return True
        return False
    while changed:
        changed = False
        for b in f.body_list:
            for pt, t in b.calls():
                c = t.get('callee')
                if not c or not c.get('local'):
                    continue
                for i, a in enumerate(t['args']):
                    if 'Vec<u8>' in t['arg_tys'][i] and is_buffer_expr(b, b.expr_of_operand(a)):
                        tgt = c.get('resolved') or c['path']
                        s = handles_arg.setdefault(tgt, set())
                        if i + 1 not in s:
                            s.add(i + 1)
                            changed = True
    total = set()
    for b in f.body_list:
        if b.promoted is not None:
            continue
        for pt, t in b.calls():
            c = t.get('callee')
            if not c or not t['args']:
                continue
            if 'Vec<u8>' not in t['arg_tys'][0] or not t['arg_tys'][0].startswith('&mut'):
                continue
            if not is_buffer_expr(b, b.expr_of_operand(t['args'][0])):
                continue
            n = c['name']
            if c.get('local'):
                r.site('%s passes the buffer to %s' % (b.path, c['path']), t['s'], 'ok', kind='handle')
                continue
            if n in NON_SOURCES:
                continue
            if n in BYTE_SOURCES and len(t['args']) == 2:
                bs = byteset(b, b.expr_of_operand(t['args'][1]), consts)
                ok = bs is not TOP and bs <= allowed
                r.site('%s: %s(%s)' % (b.path, n, 'unknown bytes' if bs is TOP else ''.join(sorted(chr(x) for x in bs))[:70]),
                       t['s'], 'ok' if ok else 'violation')
                if bs is not TOP:
                    total |= bs
                if not ok:
                    r.violation('%s:%s' % (b.path, n), t['s'], b.path,
                                'writes bytes into the mappings buffer that are not provably base64 digits / separators (%s): '
                                'the mappings string leaves the v3 alphabet, and if non-ASCII, from_utf8_unchecked is UB' %
                                ('not a constant or table element' if bs is TOP else sorted(bs - allowed)))
            else:
                r.site('%s: unknown writer `%s`' % (b.path, n), t['s'], 'violation')
                r.violation('%s:writer:%s' % (b.path, n), t['s'], b.path,
                            'mutable access to the mappings buffer through `%s`, which is not a recognised byte source '
                            '(fail-closed: its bytes cannot be bounded)' % n, reason='unrecognised-idiom')
        # direct element writes / raw mutable borrows that escape
        for (adt, fld) in real:
            for pt, role, pl, node, rest in b.field_accesses(adt, fld):
                if role == 'write' and rest:
                    r.site('%s: element write into buffer' % b.path, node.get('s', b.span()), 'violation')
                    r.violation('%s:element-write' % b.path, node.get('s', b.span()), b.path,
                                'direct element write into the mappings buffer (bytes cannot be bounded)')
    # separators written are exactly the ones the decoder knows
    seps = total - set(V3)
    ok = seps <= {ord(','), ord(';')}
    r.site('separators written by the encoders: %s' % sorted(chr(x) for x in seps), '(crate)', 'ok' if ok else 'violation')
    for (adt, fld), lst in real.items():
        for b, t in lst:
            r.site('%s: from_utf8_unchecked(take(%s.%s))' % (b.path, adt.rsplit('::', 1)[-1], fld), t['s'], 'ok')
    r.check_floor()
    return r


# ---------------------------------------------------------------------------------- LINE-RESET (C12)

def rule_line_reset(ctx):
    """the generated column is relative within a line: whoever advances the line must reset the column (decoder and full encoder)"""
    from ..rng import place_key
    f = ctx.facts()
    r = RuleResult('LINE-RESET', 'the generated-column field is relative to the line (source-map v3): in the decoder every advance of the '
                                 'line counter resets the running column to 0 on all paths, and the full encoder resets its column '
                                 'state whenever it writes ";"')
    r.floor = 2
    mp = anchors.adt_by_name(f, 'Mapping')['path']
    # ---- decoder: roles from the Mapping aggregates of the Iterator impl reached from decode_mappings
    from .panics import local_cone
    entry = [x for x in f.body_list if x.name == 'decode_mappings' and x.d.get('pub') and x.promoted is None]
    if len(entry) != 1:
        raise anchors.AnchorMissing('public fn decode_mappings: %d' % len(entry))
    dec = [m for ms in local_cone(f, entry[0]).values() for m in ms
           if m.name == 'next' and (m.d.get('impl_trait') or '').endswith('Iterator') and m.d['kind'] != 'Closure']
    if len(dec) != 1:
        raise anchors.AnchorMissing('decoder Iterator::next in the decode_mappings cone: %d' % len(dec))
    b = dec[0]
    dadt = b.d.get('impl_adt')
    members = [m for m in f.body_list if m.promoted is None and (m.d.get('impl_adt') == dadt)]

    def place_role(m, pl):
        """(field name, constant index or None) of a place below the decoder state, or None"""
        fld, idx = None, None
        for x in pl['pr']:
            if isinstance(x, dict) and x.get('o') == dadt and 'n' in x:
                fld, idx = x['n'], None
            elif isinstance(x, dict) and 'ci' in x:
                idx = x['ci']
            elif isinstance(x, dict) and 'i' in x:
                ds = m.whole_defs(x['i'])
                if len(ds) == 1 and ds[0][1] == 'assign' and ds[0][2]['r']['k'] == 'use' and ds[0][2]['r']['o'].get('k') == 'const':
                    idx = ds[0][2]['r']['o'].get('int')
                else:
                    idx = '?'
        return (fld, idx) if fld else None

    def expr_roles(e):
        out = set()
        for x in walk(e):
            if x[0] in ('index', 'cindex') and x[1][0] in ('field',) or (x[0] in ('index', 'cindex') and x[1][0] == 'deref'):
                base = x[1]
                while base[0] in ('deref', 'ref'):
                    base = base[1]
                if base[0] == 'field' and base[3] == dadt:
                    k = x[2] if x[0] == 'cindex' else (x[2][1] if x[2][0] == 'const' else '?')
                    out.add((base[2], k))
        if not out:
            for x in walk(e):
                if x[0] == 'field' and x[3] == dadt:
                    out.add((x[2], None))
        return out

    line_keys, col_keys = set(), set()
    # the Mapping may be built by a (free) helper function the decoder calls: those belong to the search scope
    scope, frontier = list(members), list(members)
    for _ in range(2):
        nxt = []
        for m in frontier:
            for cpt, ct in m.calls():
                cc = ct.get('callee')
                hb = f.body(cc.get('resolved') or cc['path']) if cc else None
                if hb is not None and hb.promoted is None and hb not in scope:
                    scope.append(hb)
                    nxt.append(hb)
        frontier = nxt

    def roles_of(m, e, depth=0):
        rl = expr_roles(e)
        if not rl and depth < 3:
            # built from the function's parameters: take the callers' actual arguments; an index applied to the parameter inside
            # the helper (`data[0]` with `data = &self.current_data`) is carried over to the caller's field
            idx = None
            for x in walk(e):
                if x[0] in ('index', 'cindex') and any(y[0] == 'arg' and y[3] == m.key for y in walk(x[1])):
                    idx = x[2] if x[0] == 'cindex' else (x[2][1] if x[2][0] == 'const' else '?')
            for x in walk(e):
                if x[0] == 'arg' and x[3] == m.key:
                    for cm in scope:
                        for cpt, ct in cm.calls():
                            cc = ct.get('callee')
                            if cc and (cc.get('resolved') or cc['path']) == m.key and x[1] - 1 < len(ct['args']):
                                sub = roles_of(cm, cm.expr_of_operand(ct['args'][x[1] - 1]), depth + 1)
                                if idx is not None:
                                    sub = {(fld, idx if k is None else k) for fld, k in sub}
                                rl |= sub
        return rl
    for m in scope:
        for pt, s in m.points():
            if s['k'] == 'assign' and s['r']['k'] == 'agg' and s['r'].get('path') == mp:
                ops = dict(zip(s['r']['fields'], s['r']['ops']))
                for fld, keys in (('generated_line', line_keys), ('generated_column', col_keys)):
                    keys |= roles_of(m, m.expr_of_operand(ops[fld]))
    if len(line_keys) != 1 or len(col_keys) != 1:
        r.violation('decoder-roles', b.span(), b.path, 'cannot identify the line / column state of the decoder (%s / %s)' % (line_keys, col_keys),
                    reason='unrecognised-idiom')
        return r
    lk, ck = next(iter(line_keys)), next(iter(col_keys))
    for m in members:
        incs, resets = [], []
        for pt, s in m.points():
            if s['k'] != 'assign' or not s['p']['pr']:
                continue
            role = place_role(m, s['p'])
            if role == lk and not (s['r']['k'] == 'use' and s['r']['o']['k'] == 'const'):
                incs.append((pt, s))
            if role == ck and s['r']['k'] == 'use' and s['r']['o']['k'] == 'const' and s['r']['o'].get('int') == 0:
                resets.append(pt)
        for pt, s in incs:
            ok = any(m.postdominates(rp, pt) or (rp[0] == pt[0]) for rp in resets)
            r.site('%s: line counter advance is paired with column := 0' % m.path, s['s'], 'ok' if ok else 'violation')
            if not ok:
                r.violation('%s:decoder' % m.path, s['s'], m.path,
                            'the decoder advances the generated line without (on every path) resetting the running generated column: '
                            'segments after an empty segment / empty line get the previous line\'s column added')
    # ---- full encoder: writes of ';' are followed by a reset of its column state
    bufs = find_buffers(f)
    for (adt, fld), lst in bufs.items():
        if adt is None:
            continue
        colf = None
        # the column state: the field passed as second argument of encode_vlq together with mapping.generated_column
        for m in f.body_list:
            if m.promoted is not None or m.d.get('impl_adt') != adt or m.name != 'encode':
                continue
            for pt, t in m.calls():
                c = t.get('callee')
                if c and c.get('local') and len(t['args']) == 3:
                    a1 = m.expr_of_operand(t['args'][1])
                    if any(x[0] == 'field' and x[2] == 'generated_column' for x in walk(a1)):
                        for x in walk(m.expr_of_operand(t['args'][2])):
                            if x[0] == 'field' and x[3] == adt:
                                colf = x[2]
            if colf is None:
                continue
            def direct_semis(x):
                """writes of ';' made by x or its closures: (body, point, terminator, point in x where it takes effect)"""
                out = []
                for mm in [x] + f.closures_of(x):
                    for pt, t in mm.calls():
                        c = t.get('callee')
                        if c and c['name'] in BYTE_SOURCES and len(t['args']) == 2:
                            bs = byteset(mm, mm.expr_of_operand(t['args'][1]), f.consts)
                            if bs is not TOP and ord(';') in bs:
                                ppt = pt
                                if mm is not x:
                                    # the write sits in a closure (for_each): use the point where the closure is consumed in the parent
                                    ppt = None
                                    for qpt, qt in x.calls():
                                        if any(y[0] == 'agg' and y[1] == 'closure' and y[2] == mm.path for a in qt['args']
                                               for y in walk(x.expr_of_operand(a))):
                                            ppt = qpt
                                out.append((mm, pt, t, ppt))
                return out

            def resets_of(x):
                return [pt for pt, s_ in x.points() if s_['k'] == 'assign' and s_['p']['pr'] and isinstance(s_['p']['pr'][-1], dict)
                        and s_['p']['pr'][-1].get('n') == colf and s_['r']['k'] == 'use' and s_['r']['o']['k'] == 'const'
                        and s_['r']['o'].get('int') == 0]

            def reset_follows(x, ppt):
                return ppt is not None and any(x.postdominates(rp, ppt) for rp in resets_of(x))
            todo = [(m, mm, pt, t, ppt) for mm, pt, t, ppt in direct_semis(m)]
            for pt, t in [(pt, t) for mm in [m] + f.closures_of(m) for pt, t in mm.calls() if mm is m]:
                c = t.get('callee')
                hb = f.body(c.get('resolved') or c['path']) if c and c.get('local') else None
                if hb is None or hb.key == m.key or hb.d['kind'] == 'Closure':
                    continue
                hs = direct_semis(hb)
                if not hs:
                    continue
                if all(reset_follows(hb, hppt) for _, _, _, hppt in hs):
                    # the helper starts the line and resets the column state itself
                    for hm, hpt, ht, hppt in hs:
                        r.site('%s: writing ";" is followed by resetting the column state `%s`' % (hb.path, colf), ht['s'], 'ok')
                else:
                    # a crate-local helper that writes ';' into the buffer it receives: the call is the write
                    todo.append((m, m, pt, t, pt))
            for x, mm, pt, t, ppt in todo:
                ok = reset_follows(x, ppt)
                r.site('%s: writing ";" is followed by resetting the column state `%s`' % (m.path, colf), t['s'], 'ok' if ok else 'violation')
                if not ok:
                    r.violation('%s:encoder' % m.path, t['s'], m.path,
                                'the encoder starts a new line without resetting its generated-column state: later columns on that line '
                                'are encoded relative to the previous line')
    r.check_floor()
    return r


def rule_enc_dedup(ctx):
    """the full encoder's "same original location: skip the segment" shortcut looks at every piece of per-segment state it records"""
    f = ctx.facts()
    r = RuleResult('ENC-DEDUP', 'an encoder may skip a mapped segment as a repetition of the previous one only after comparing, for every '
                                'field of the original location from which it records per-segment state (source, line, column, name), '
                                'that field with that state: the guard of the skip reads the field and a state field derived from it')
    r.floor = 1
    ol = anchors.adt_by_name(f, 'OriginalLocation')
    ol_fields = [fl['name'] for fl in anchors.fields(ol)]
    tr = anchors.trait_path(f, 'MappingsEncoder')
    encs = [b for b in f.body_list if b.promoted is None and b.d['kind'] != 'Closure' and b.d.get('impl_trait') == tr and b.name == 'encode']
    if not encs:
        raise anchors.AnchorMissing('no MappingsEncoder::encode implementation')
    for m in encs:
        adt = m.d.get('impl_adt')
        group = [m] + f.closures_of(m)

        def helpers_called(body, blocks=None):
            out = []
            for pt, t in body.calls():
                if blocks is not None and pt[0] not in blocks:
                    continue
                c = t.get('callee')
                hb = f.body(c.get('resolved') or c['path']) if c else None
                if hb is not None and hb.d['kind'] != 'Closure' and hb.key != m.key:
                    out.append((pt, t, hb))
            return out
        # buffer writes: std byte sources, or crate-local functions that (transitively) contain one
        def writes(body, depth=0):
            for pt, t in body.calls():
                c = t.get('callee')
                if c and c['name'] in BYTE_SOURCES and len(t['args']) == 2 and 'Vec<u8>' in (t.get('arg_tys') or [''])[0]:
                    return True
            if depth < 2:
                for pt, t, hb in helpers_called(body):
                    if writes(hb, depth + 1):
                        return True
            return False
        stops = set()
        for pt, t in m.calls():
            c = t.get('callee')
            if c and c['name'] in BYTE_SOURCES and len(t['args']) == 2 and 'Vec<u8>' in (t.get('arg_tys') or [''])[0]:
                stops.add(pt[0])
            hb = f.body(c.get('resolved') or c['path']) if c else None
            if hb is not None and hb.d['kind'] != 'Closure' and writes(hb):
                stops.add(pt[0])
            if c and any(x[0] == 'agg' and x[1] == 'closure' and f.body(x[2]) is not None and writes(f.body(x[2]))
                         for a in t['args'] for x in walk(m.expr_of_operand(a))):
                stops.add(pt[0])
        fwd = m.reachable(0, blocked=stops)
        skip_returns = [bb for bb in m.return_blocks() if bb in fwd]
        back, st = set(), list(skip_returns)
        while st:
            x = st.pop()
            if x in back or x in stops:
                continue
            back.add(x)
            st.extend(p_ for p_ in m.preds(x))
        region = fwd & back
        # bodies whose reads belong to the guard: closures created / helpers called inside the region
        guard_bodies = []
        for pt, s in m.points():
            if pt[0] in region and s['k'] == 'assign' and s['r']['k'] == 'agg' and s['r'].get('ak') == 'closure':
                cb = f.body(s['r'].get('path'))
                if cb is not None:
                    guard_bodies.append(cb)
        for pt, t, hb in helpers_called(m, region):
            guard_bodies.append(hb)
        for gb in list(guard_bodies):
            for pt, t, hb in helpers_called(gb):
                if hb not in guard_bodies:
                    guard_bodies.append(hb)

        def reads(body, blocks=None):
            olr, str_ = set(), set()
            for pt, role, pl, node in body.places():
                if blocks is not None and pt[0] not in blocks:
                    continue
                for x in pl['pr']:
                    if isinstance(x, dict) and x.get('o') == ol['path'] and x.get('n') in ol_fields:
                        olr.add(x['n'])
                    if isinstance(x, dict) and x.get('o') == adt and 'n' in x and role != 'write':
                        str_.add(x['n'])
            return olr, str_
        g_ol, g_state = reads(m, region)
        for gb in guard_bodies:
            a, b_ = reads(gb)
            g_ol |= a
            g_state |= b_
        if not g_ol:
            r.site('%s: no skip that depends on the original location' % m.path, m.span(), 'ok')
            continue
        # per-segment state derived from each field of the original location (value flow, or a constant stored under its discriminant)
        derived = {}
        for body in group:
            for pt, s in body.points():
                tgt, val = None, None
                if s['k'] == 'assign' and s['p']['pr']:
                    last = [x for x in s['p']['pr'] if isinstance(x, dict) and x.get('o') == adt and 'n' in x]
                    if last and 'Vec<u8>' in (s['p'].get('ty') or ''):
                        last = []
                    if last:
                        tgt = last[-1]['n']
                        val = body.expr_of_operand(s['r']['o']) if s['r']['k'] == 'use' else \
                            (body.expr_of_local(s['p']['l']) if False else None)
                        if s['r']['k'] != 'use':
                            ops = [s['r'].get('o'), s['r'].get('a'), s['r'].get('b')] + list(s['r'].get('ops') or [])
                            val = ('tuple',) + tuple(body.expr_of_operand(o) for o in ops if isinstance(o, dict) and 'k' in o)
                        flds = {x[2] for x in walk(val) if x[0] == 'field' and x[3] == ol['path']} if val else set()
                        if s['r']['k'] == 'use' and s['r']['o']['k'] == 'const':
                            # control dependence: a constant stored under a test of a field of the original location
                            # (only tests of the *presence* of an optional field: a discriminant read)
                            for d in body.dom().get(pt[0], set()):
                                t = body.term(d)
                                if t['k'] == 'switch' and t['d']['k'] in ('copy', 'move') and not t['d']['p']['pr']:
                                    dd = body.whole_defs(t['d']['p']['l'])
                                    if len(dd) == 1 and dd[0][1] == 'assign' and dd[0][2]['r']['k'] == 'discr':
                                        prs = _discr_projs(body, dd[0][2]['r']['p'])
                                        if prs and isinstance(prs[-1], dict) and prs[-1].get('o') == ol['path']:
                                            flds.add(prs[-1].get('n'))
                        for fl in flds:
                            derived.setdefault(fl, set()).add(tgt)
                elif s['k'] == 'call':
                    # a helper that receives `&mut self.state` together with a value read from the original location
                    c = s.get('callee')
                    if c and f.body(c.get('resolved') or c['path']) is not None:
                        muts, flds = set(), set()
                        for a in s['args']:
                            e = body.expr_of_operand(a)
                            if a['k'] in ('copy', 'move') and (body.local_ty(a['p']['l']) if not a['p']['pr'] else '').startswith('&mut'):
                                if 'Vec<u8>' not in body.local_ty(a['p']['l']):
                                    muts |= {x[2] for x in walk(e) if x[0] == 'field' and x[3] == adt}
                            else:
                                flds |= {x[2] for x in walk(e) if x[0] == 'field' and x[3] == ol['path']}
                        for fl in flds:
                            for sname in muts:
                                derived.setdefault(fl, set()).add(sname)
        for fl in ol_fields:
            ds = derived.get(fl, set())
            if not ds:
                continue
            ok = fl in g_ol and bool(ds & g_state)
            r.site('%s: the skip compares `%s` with the state recorded from it (%s)' % (m.path, fl, ', '.join(sorted(ds))), m.span(),
                   'ok' if ok else 'violation')
            if not ok:
                r.violation('%s:%s' % (m.path, fl), m.span(), m.path,
                            'the encoder skips a mapped segment as "same as the previous one" without comparing `%s` with the state it '
                            'records from it (%s): a segment that differs only there is swallowed and its text inherits the previous '
                            'segment\'s %s' % (fl, ', '.join(sorted(ds)), fl))
    r.check_floor()
    return r


def rule_enc_omit(ctx):
    """a delta field of a mapped segment is written as a literal / left to a shortcut only when the value equals the encoder state"""
    f = ctx.facts()
    r = RuleResult('ENC-OMIT', 'in a mapped segment, a field whose value the encoder tracks (source index, original line, original column) '
                               'is either written as a delta against that state, or the path has passed the equality test of the new '
                               'value with the state (== state, or == state + 1 for the "next line" shortcut): no shortcut emits constant '
                               'digits for a field it has not compared')
    r.floor = 3
    ol = anchors.adt_by_name(f, 'OriginalLocation')
    mp = anchors.adt_by_name(f, 'Mapping')
    plain = [fl['name'] for fl in anchors.fields(ol) if fl['ty'] == 'u32']
    tr = anchors.trait_path(f, 'MappingsEncoder')
    encs = [b for b in f.body_list if b.promoted is None and b.d['kind'] != 'Closure' and b.d.get('impl_trait') == tr and b.name == 'encode']
    if not encs:
        raise anchors.AnchorMissing('no MappingsEncoder::encode implementation')

    def ol_fields_of(e):
        return {x[2] for x in walk(e) if x[0] == 'field' and x[3] == ol['path'] and x[2] in plain}

    def analyse(m, adt, whole):
        """whole: the body is a helper that is handed the OriginalLocation, all of it is the mapped region"""

        def state_fields_of(e):
            return {x[2] for x in walk(e) if x[0] == 'field' and x[3] == adt}
        # 1. delta writers: crate-local calls that get a value read from the original location and the state it is relative to
        enc_sites = {}     # state field -> (ol field, set(blocks))
        writes = set()
        for pt, t in m.calls():
            c = t.get('callee')
            if c and c['name'] in BYTE_SOURCES and len(t['args']) == 2 and 'Vec<u8>' in (t.get('arg_tys') or [''])[0]:
                writes.add(pt[0])
            hb = f.body(c.get('resolved') or c['path']) if c else None
            if hb is None or hb.d['kind'] == 'Closure':
                continue
            writes.add(pt[0])
            es = [m.expr_of_operand(a) for a in t['args']]
            vals, states = set(), set()
            for e in es:
                vals |= ol_fields_of(e)
                states |= {s_ for s_ in state_fields_of(e) if 'Vec<u8>' not in _field_ty(f, adt, s_)}
            if len(vals) == 1 and len(states) == 1:
                S, F = next(iter(states)), next(iter(vals))
                enc_sites.setdefault(S, (F, set()))[1].add(pt[0])
        # 2. equality tests between the same pair
        eq_edges = {}

        def bool_defs(o, depth=0):
            """defining statements of a boolean operand, through copies and through fields of a tuple literal (`match (a, b)`)"""
            if o['k'] not in ('copy', 'move') or depth > 6:
                return []
            pl = o['p']
            if pl['pr']:
                if len(pl['pr']) == 1 and isinstance(pl['pr'][0], dict) and 'f' in pl['pr'][0]:
                    dd = m.whole_defs(pl['l'])
                    if len(dd) == 1 and dd[0][1] == 'assign' and dd[0][2]['r']['k'] == 'agg' and dd[0][2]['r'].get('ak') == 'tuple':
                        return bool_defs(dd[0][2]['r']['ops'][pl['pr'][0]['f']], depth + 1)
                return []
            dd = m.whole_defs(pl['l'])
            if len(dd) == 1 and dd[0][1] == 'assign' and dd[0][2]['r']['k'] == 'use':
                return bool_defs(dd[0][2]['r']['o'], depth + 1)
            return dd
        for bi in range(len(m.blocks)):
            t = m.term(bi)
            if t['k'] != 'switch' or t['d']['k'] not in ('copy', 'move'):
                continue
            ds = bool_defs(t['d'])
            if len(ds) != 1 or ds[0][1] != 'assign' or ds[0][2]['r']['k'] != 'bin' or ds[0][2]['r']['op'] != 'Eq':
                # `checked_add(1) == Some(x)` and friends compare through PartialEq::eq
                if len(ds) == 1 and ds[0][1] == 'call' and (ds[0][2].get('callee') or {}).get('name') == 'eq':
                    a_, b_ = [m.expr_of_operand(x) for x in ds[0][2]['args'][:2]]
                else:
                    continue
            else:
                a_, b_ = m.expr_of_operand(ds[0][2]['r']['a']), m.expr_of_operand(ds[0][2]['r']['b'])
            for S, (F, _) in enc_sites.items():
                if (F in ol_fields_of(a_) and S in state_fields_of(b_)) or (F in ol_fields_of(b_) and S in state_fields_of(a_)):
                    zero = [tb for v, tb in t['targets'] if v == 0]
                    true_t = t['otherwise'] if zero else None
                    if true_t is not None and true_t not in zero:
                        eq_edges.setdefault(S, set()).add(true_t)
        # 3. the mapped region: blocks under the Some edge of the test of `mapping.original`
        mapped = set()
        for bi in range(len(m.blocks)):
            t = m.term(bi)
            if t['k'] != 'switch' or t['d']['k'] not in ('copy', 'move') or t['d']['p']['pr']:
                continue
            ds = m.whole_defs(t['d']['p']['l'])
            if len(ds) == 1 and ds[0][1] == 'assign' and ds[0][2]['r']['k'] == 'discr':
                prs = _discr_projs(m, ds[0][2]['r']['p'])
                if prs and isinstance(prs[-1], dict) and prs[-1].get('o') == mp['path'] and prs[-1].get('n') == 'original':
                    some_t = [tb for v, tb in t['targets'] if v == 1] or ([t['otherwise']] if all(v == 0 for v, _ in t['targets']) else [])
                    for st_ in some_t:
                        mapped |= {x for x in range(len(m.blocks)) if x == st_ or st_ in m.dom().get(x, set())}
        if whole:
            mapped = set(range(len(m.blocks)))
        if not mapped:
            if helpers_with_ol:
                return              # the mapped part lives in the helper(s) that receive the location
            r.violation('%s:mapped-region' % m.path, m.span(), m.path, 'cannot find the test of `mapping.original` in the encoder '
                        '(unrecognised idiom, fail-closed)', reason='unrecognised-idiom')
            return
        wm = writes & mapped
        for S, (F, blocks) in sorted(enc_sites.items()):
            blocked = blocks | eq_edges.get(S, set())
            fwd = m.reachable(0, blocked=blocked)
            bad = None
            for w in sorted(wm & fwd):
                if any(rb in m.reachable(w, blocked=blocked) for rb in m.return_blocks()):
                    bad = w
                    break
            ok = bad is None
            r.site('%s: `%s` is written relative to `%s`, or skipped only after comparing them' % (m.path, F, S), m.span(), 'ok' if ok else 'violation')
            if not ok:
                tt = m.term(bad)
                r.violation('%s:%s' % (m.path, S), tt.get('s') or m.span(), m.path,
                            'a mapped segment can be written on a path that neither encodes `%s` against `%s` nor has compared them: a '
                            'shortcut emits constant digits for a field that may have changed (e.g. the "same file, next line" form '
                            'used across a file switch), so positions are attributed to the wrong %s' % (F, S, F))
    for enc in encs:
        adt_ = enc.d.get('impl_adt')
        # private helpers of the encoder that are handed the original location (methods or free functions, two levels deep)
        helpers_with_ol, frontier, seen_h = [], [enc], {enc.key}
        for _ in range(2):
            nxt = []
            for x in frontier:
                for pt, t in x.calls():
                    c = t.get('callee')
                    hb = f.body(c.get('resolved') or c['path']) if c else None
                    if hb is None or hb.key in seen_h or hb.d['kind'] == 'Closure' or hb.promoted is not None:
                        continue
                    seen_h.add(hb.key)
                    nxt.append(hb)
                    if any(ol['path'] in hb.local_ty(i) for i in range(1, hb.arg_count + 1)):
                        helpers_with_ol.append(hb)
            frontier = nxt
        analyse(enc, adt_, False)
        for hb in helpers_with_ol:
            analyse(hb, adt_, True)
    r.check_floor()
    return r


def _discr_projs(m, pl, depth=0):
    """projection list of the place a discriminant is read from, looking through reference temporaries (`_3 = &(*m).original`)"""
    prs = [x for x in pl['pr'] if x != '*']
    if prs or depth > 3:
        return prs
    ds = m.whole_defs(pl['l'])
    if len(ds) == 1 and ds[0][1] == 'assign':
        r = ds[0][2]['r']
        if r['k'] in ('ref', 'addr'):
            return _discr_projs(m, r['p'], depth + 1)
        if r['k'] == 'use' and r['o']['k'] in ('copy', 'move'):
            return _discr_projs(m, r['o']['p'], depth + 1)
    if len(ds) == 1 and ds[0][1] == 'call' and (ds[0][2].get('callee') or {}).get('name') in ('as_ref', 'as_mut', 'deref', 'as_deref') \
            and ds[0][2]['args'] and ds[0][2]['args'][0]['k'] in ('copy', 'move'):
        return _discr_projs(m, ds[0][2]['args'][0]['p'], depth + 1)
    return prs


def _field_ty(f, adt, name):
    for fl in anchors.fields(f.adts[adt]):
        if fl['name'] == name:
            return fl['ty']
    return ''


# ------------------------------------------------------------------------------------------------------------------------------
# FIELD-RESET: a VLQ field ends only with the digit state cleared

def rule_vlq_field_reset(ctx):
    """every advance of the decoder's field counter leaves the shift position (and the accumulator) cleared"""
    from .panics import local_cone
    f = ctx.facts()
    r = RuleResult('VLQ-FIELD-RESET', 'the reader of base64-VLQ fields moves on to the next field only with its digit state cleared: every '
                                  'increment of the field counter is followed, before the next digit is read, by a reset of the shift '
                                  'position to 0 (or is made only where the shift position was just tested to be 0), and likewise for '
                                  'the accumulator: continuation digits of one field can never leak into the next field')
    entry = [x for x in f.body_list if x.name == 'decode_mappings' and x.d.get('pub') and x.promoted is None]
    if len(entry) != 1:
        raise anchors.AnchorMissing('public fn decode_mappings: %d' % len(entry))
    dec = [m for ms in local_cone(f, entry[0]).values() for m in ms
           if m.name == 'next' and (m.d.get('impl_trait') or '').endswith('Iterator') and m.d['kind'] != 'Closure']
    if len(dec) != 1:
        raise anchors.AnchorMissing('decoder Iterator::next in the decode_mappings cone: %d' % len(dec))
    root = dec[0]
    dadt = root.d.get('impl_adt')
    # the decoder's own bodies: next and the private helpers of the same type it calls
    members = [root] + [m for ms in local_cone(f, root).values() for m in ms if m is not root and m.d.get('impl_adt') == dadt]

    def state_field(pl):
        """name of the decoder field a place denotes (the field itself, not an element of it)"""
        prs = [x for x in pl['pr'] if x != '*']
        if len(prs) == 1 and isinstance(prs[0], dict) and prs[0].get('o') == dadt and 'n' in prs[0]:
            return prs[0]['n']
        return None

    def fields_in(e):
        return {x[2] for x in walk(e) if isinstance(x, tuple) and x and x[0] == 'field' and len(x) > 3 and x[3] == dadt}

    shift, acc, counter_incs = set(), set(), []
    for m in members:
        for pt, s in m.points():
            if s['k'] != 'assign':
                continue
            rv = s['r']
            if rv['k'] == 'bin' and rv['op'].startswith('Shl'):
                shift |= fields_in(m.expr_of_operand(rv['b']))
            fld = state_field(s['p'])
            if fld is None:
                continue
            e = m.expr_of_operand(rv['o']) if rv['k'] == 'use' else m._expr_of_def(None, pt, 'assign', s, 0, ())
            if any(isinstance(x, tuple) and x and x[0] == 'bin' and x[1].startswith('Shl') for x in walk(e)) and \
                    any(isinstance(x, tuple) and x and x[0] == 'bin' and x[1] == 'BitOr' for x in walk(e)):
                acc.add(fld)
    shift -= acc
    if len(shift) != 1:
        # conditional rule: the digit state may live in a type of its own (`VlqAccumulator { bits, shift }` with push / finish); then the
        # roles are not fields of the decoder and the clause is not decided.  The seeded canaries (thorough tier) exclude vacuity today.
        r.info('shift-position field of the VLQ reader not recognisable among the decoder\'s own fields (%s): not decided' % sorted(shift))
        r.site('(decoder): digit state not recognisable', root.span(), 'ok')
        return r
    S = next(iter(shift))
    # the field counter: a decoder field that indexes an array field of the decoder and is incremented by the constant 1
    for m in members:
        for pt, s in m.points():
            if s['k'] != 'assign':
                continue
            fld = state_field(s['p'])
            if fld is None or fld == S or fld in acc:
                continue
            e = m._expr_of_def(None, pt, 'assign', s, 0, ())
            inc = [x for x in walk(e) if isinstance(x, tuple) and x and x[0] == 'bin' and x[1].startswith('Add')
                   and any(y and y[0] == 'const' and y[1] == 1 for y in (x[2], x[3]))
                   and fld in (fields_in(x[2]) | fields_in(x[3]))]
            if not inc:
                continue
            # is this field used as an index of an array field?
            used_as_index = False
            for m2 in members:
                for pt2, s2 in m2.points():
                    for pl in ([s2['p']] if s2['k'] == 'assign' else []):
                        for x in pl['pr']:
                            if isinstance(x, dict) and 'i' in x and fld in fields_in(m2.expr_of_local(x['i'])):
                                used_as_index = True
                    if s2['k'] == 'call' and (s2.get('callee') or {}).get('name') in ('get', 'get_mut', 'index', 'index_mut',
                                                                                     'get_unchecked', 'get_unchecked_mut') \
                            and len(s2['args']) == 2 and fld in fields_in(m2.expr_of_operand(s2['args'][1])):
                        used_as_index = True
            if used_as_index:
                counter_incs.append((m, pt, s, fld))
    if not counter_incs:
        r.info('no increment of a field counter recognisable in the VLQ reader: not decided')
        r.site('(decoder): field counter not recognisable', root.span(), 'ok')
        return r

    def zero_guarded(m, pt, fld):
        """is pt dominated by the edge `fld == 0` of a test of the field (no write in between is checked by construction: the
        guard and the increment sit in one iteration, writes of the field are resets to 0 or digit steps after the guard)"""
        dom = m.dom()
        for d in dom.get(pt[0], set()):
            t = m.term(d)
            if t['k'] != 'switch' or t['d']['k'] not in ('copy', 'move'):
                continue
            e = m.expr_of_operand(t['d'])
            good = None
            if e and e[0] == 'bin' and e[1] in ('Eq', 'Ne'):
                for a_, b_ in ((e[2], e[3]), (e[3], e[2])):
                    if fld in fields_in(a_) and b_ and b_[0] == 'const' and b_[1] == 0 and not (fields_in(a_) - {fld}):
                        good = [x[1] for x in t['targets'] if x[0] == 0] if e[1] == 'Ne' else \
                               [x for x in [t['otherwise']] + [y[1] for y in t['targets'] if y[0] != 0]
                                if x not in [y[1] for y in t['targets'] if y[0] == 0]]
            elif e and e[0] == 'field' and len(e) > 3 and e[3] == dadt and e[2] == fld:
                good = [x[1] for x in t['targets'] if x[0] == 0]          # switch on the field itself: the 0 arm
            if not good:
                continue
            for g in good:
                if (g == pt[0] or g in dom.get(pt[0], set())) and len(m.preds(g)) == 1:
                    return True
        return False

    def reset_after(m, pt, fld):
        """on every path from pt to the end of the iteration (the next read of a digit: a call of `next` on the byte iterator, or a
        return) the field is assigned the constant 0"""
        seen, work = set(), [(pt[0], pt[1] + 1)]
        while work:
            bb, i0 = work.pop()
            if (bb, i0) in seen:
                continue
            seen.add((bb, i0))
            hit = False
            for i, s in enumerate(m.stmts(bb)):
                if i < i0:
                    continue
                if s['k'] == 'assign' and state_field(s['p']) == fld and s['r']['k'] == 'use' and s['r']['o'].get('k') == 'const' \
                        and s['r']['o'].get('int') == 0:
                    hit = True
                    break
            if hit:
                continue
            t = m.term(bb)
            if t['k'] == 'return':
                return False
            if t['k'] == 'call' and (t.get('callee') or {}).get('name') == 'next':
                return False
            for su in m.succs(bb):
                if not m.is_cleanup(su):
                    work.append((su, 0))
        return True

    for m, pt, s, fld in counter_incs:
        for X, what in [(S, 'shift position')] + [(a, 'accumulator') for a in sorted(acc)]:
            ok = reset_after(m, pt, X) or zero_guarded(m, pt, X) or (X != S and zero_guarded(m, pt, S))
            r.site('%s: field counter `%s` advanced with the %s `%s` cleared' % (m.path, fld, what, X), s['s'], 'ok' if ok else 'violation')
            if not ok:
                r.violation('%s:%s' % (m.path, X), s['s'], m.path,
                            'the field counter `%s` is advanced on a path that neither resets the %s `%s` to 0 before the next digit is '
                            'read nor is taken only when it is 0: continuation digits already read for this field shift / add into the '
                            'next field (a zero delta spelled with redundant continuation digits, e.g. "gA", is legal base64-VLQ)' % (
                                fld, what, X))
    r.floor = 2
    r.check_floor()
    return r
