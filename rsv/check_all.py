"""Evaluate the quick rules of *every* claimed property on one checkout with a single fact base (one compilation):
    python3 -m rsv.check_all [--repo /repo]   ->  one JSON object {property: [finding keys]} on stdout
Used by tools/run_seeded.py and tools/run_benign.py (the per-property CLI `bin/check` compiles once per property)."""
import argparse
import json
import sys

from . import registry
from .check import run_rules, load_known
from .core import Ctx


def main():
    ap = argparse.ArgumentParser()
    ap.add_argument('--repo', default='/repo')
    a = ap.parse_args()
    ctx = Ctx(a.repo)
    out = {}
    # open known findings are suppressed by exact (property, key), as bin/check does: a corpus runner asks what a change adds
    known = {(k['property'], k['key']) for k in load_known().get('open', [])}
    try:
        for prop in sorted(registry.PROPERTY_RULES):
            try:
                res = run_rules(prop, ctx, 'quick')
            except Exception as e:          # infrastructure problem (build failure ...): reported, never a verdict
                out.setdefault('_infra', []).append('%s: %s: %s' % (prop, type(e).__name__, str(e)[-300:]))
                continue
            keys = [f.key for r in res for f in r.findings if (prop, f.key) not in known]
            if keys:
                out[prop] = keys
    finally:
        ctx.close()
    json.dump(out, sys.stdout)
    return 0


if __name__ == '__main__':
    sys.exit(main())
