#!/usr/bin/env python3
"""DEV helper (not a registered check, produces no evidence): evaluate the quick rules of all properties on every seeded /
benign patch IN PARALLEL.  The official runners (tools/run_seeded.py, tools/run_benign.py) apply each patch to /repo itself, one
after the other (20 s each); this one copies /repo's src/ to a scratch directory under $TMPDIR per patch, replays the rustc
command line cargo uses for the member crate (captured once with `cargo check -v`) through the driver, caches the fact file under
$TMPDIR/rsv-corpus-facts/ (keyed by patch content + /repo HEAD + driver mtime) and runs the rules on the cached facts.
usage: tools/corpus_fast.py seeded|benign|<patch files...> [--rules RULE,RULE] [--props Cxx,...] [-j N]
prints one line per patch: id, own-property verdict, firing keys."""
import argparse, glob, hashlib, json, os, re, shlex, shutil, subprocess, sys, tempfile, uuid
from concurrent.futures import ProcessPoolExecutor
V = os.path.dirname(os.path.dirname(os.path.abspath(__file__)))
sys.path.insert(0, V)
from rsv import build, registry
from rsv.check import run_rules, load_known
from rsv.ir import Facts

FC = os.path.join(tempfile.gettempdir(), 'rsv-corpus-facts')
KNOWN = {(k['property'], k['key']) for k in load_known().get('open', [])}   # suppressed by exact key, as bin/check does


def member_cmd():
    """the rustc invocation for the member crate, as cargo builds it (dev configuration)"""
    build.ensure_driver()
    rustc, sysroot = build.nightly()
    target = os.path.join(build.CACHE, 'target-dev')
    for fp in glob.glob(os.path.join(target, 'debug', '.fingerprint', 'rspack_sources-*')):
        shutil.rmtree(fp, ignore_errors=True)
    out = tempfile.mkdtemp(prefix='rsv-cmd-')
    env = dict(os.environ, RUSTC=rustc, LD_LIBRARY_PATH=sysroot + '/lib', RUSTC_WORKSPACE_WRAPPER=build.DRIVER,
               RUSTFLAGS='-Zmir-opt-level=0 -Awarnings', CARGO_TARGET_DIR=target, CARGO_NET_OFFLINE='true', RSV_OUT=out,
               RSV_NONCE='cmd', CARGO_INCREMENTAL='0')
    env.pop('RUSTUP_TOOLCHAIN', None)
    r = subprocess.run(['cargo', 'check', '--offline', '--lib', '-v'], cwd='/repo', env=env, capture_output=True, text=True)
    shutil.rmtree(out, ignore_errors=True)
    for line in r.stderr.splitlines():
        m = re.match(r"\s*Running `(.*rsv-driver .*--crate-name rspack_sources .*)`$", line)
        if m:
            return shlex.split(m.group(1)), sysroot
    sys.exit('could not capture the member command:\n' + r.stderr[-2000:])


def facts_for(args):
    cmd, sysroot, patch, key = args
    dst = os.path.join(FC, key + '.json')
    if os.path.exists(dst):
        return dst, None
    base = tempfile.mkdtemp(prefix='rsv-cf-')
    try:
        # the committed tree, not the working tree: the official runners may have a patch applied to /repo at this moment
        subprocess.run('git -C /repo archive HEAD src Cargo.toml | tar -x -C %s' % shlex.quote(base), shell=True, check=True)
        if patch:
            r = subprocess.run(['patch', '-p1', '--no-backup-if-mismatch', '-s', '-f', '-i', patch], cwd=base, capture_output=True, text=True)
            if r.returncode != 0:
                return None, 'patch does not apply'
        out = os.path.join(base, 'out')
        os.makedirs(out)
        c = list(cmd)
        i = c.index('--out-dir')
        c[i + 1] = out
        env = dict(os.environ, LD_LIBRARY_PATH=sysroot + '/lib', RSV_OUT=out, RSV_NONCE=uuid.uuid4().hex,
                   CARGO_PKG_NAME='rspack_sources', CARGO_PKG_VERSION='0.4.8', CARGO_MANIFEST_DIR=base, CARGO_CRATE_NAME='rspack_sources',
                   CARGO_PRIMARY_PACKAGE='1')
        env.pop('RUSTUP_TOOLCHAIN', None)
        r = subprocess.run(c, cwd=base, env=env, capture_output=True, text=True)
        fp = os.path.join(out, 'facts-rspack_sources-lib.json')
        if r.returncode != 0 or not os.path.exists(fp):
            return None, 'build failed: ' + r.stderr[-400:]
        os.makedirs(FC, exist_ok=True)
        shutil.move(fp, dst)
        return dst, None
    finally:
        shutil.rmtree(base, ignore_errors=True)


class FCtx:
    def __init__(self, path):
        self._f = Facts(path)

    def facts(self, config='dev'):
        return self._f

    def witness(self, src):
        return (True, [], [])


def evaluate(args):
    path, props, rules = args
    ctx = FCtx(path)
    out = {}
    for prop in props:
        try:
            res = run_rules(prop, ctx, 'quick')
        except Exception as e:
            out.setdefault('_infra', []).append('%s: %s: %s' % (prop, type(e).__name__, str(e)[-200:]))
            continue
        keys = [f.key for r in res for f in r.findings if (not rules or f.rule in rules) and not (f.rule.startswith('W-') or '(W)' in f.rule)
                and (prop, f.key) not in KNOWN]   # witnesses need the rmeta: not evaluated here
        if keys:
            out[prop] = keys
    return out


def main():
    ap = argparse.ArgumentParser()
    ap.add_argument('what', nargs='+')
    ap.add_argument('--rules', default='')
    ap.add_argument('--props', default='')
    ap.add_argument('-j', type=int, default=14)
    a = ap.parse_args()
    items = []      # (id, patch, breaks)
    for w in a.what:
        if w == 'seeded':
            for d in sorted(os.listdir(os.path.join(V, 'seeded'))):
                p = os.path.join(V, 'seeded', d, 'patch.diff')
                if os.path.exists(p):
                    items.append((d, p, json.load(open(os.path.join(V, 'seeded', d, 'meta.json')))['breaks']))
        elif w == 'benign':
            for p in sorted(glob.glob(os.path.join(V, 'benign', '*.diff'))):
                items.append((os.path.basename(p)[:-5], p, []))
        elif w == 'clean':
            items.append(('clean', None, []))
        else:
            items.append((os.path.basename(os.path.dirname(os.path.abspath(w))) + '/' + os.path.basename(w), os.path.abspath(w), []))
    cmd, sysroot = member_cmd()
    head = subprocess.run(['git', '-C', '/repo', 'rev-parse', 'HEAD'], capture_output=True, text=True).stdout.strip()
    stamp = head + str(os.path.getmtime(build.DRIVER))
    jobs = []
    for sid, p, br in items:
        h = hashlib.sha1((stamp + (open(p).read() if p else '')).encode()).hexdigest()[:20]
        jobs.append((cmd, sysroot, p, h))
    props = a.props.split(',') if a.props else sorted(registry.PROPERTY_RULES)
    rules = set(a.rules.split(',')) if a.rules else None
    with ProcessPoolExecutor(a.j) as ex:
        fres = list(ex.map(facts_for, jobs))
        ev = list(ex.map(evaluate, [(fp, props, rules) for fp, err in fres if fp]))
    it = iter(ev)
    summary = {}
    for (sid, p, br), (fp, err) in zip(items, fres):
        if not fp:
            print(sid, 'ERROR', err)
            summary[sid] = {'_error': err}
            continue
        res = next(it)
        own = any(x in res for x in br) if br else None
        summary[sid] = res
        print(sid, 'own:%s' % own if br else ('SILENT' if not res else 'ALARM'), json.dumps({k: sorted(set(x.split(':')[0] for x in v)) for k, v in res.items()}))
    if any(br for _, _, br in items):
        n = sum(1 for (sid, p, br) in items if br)
        k = sum(1 for (sid, p, br) in items if br and any(x in summary.get(sid, {}) for x in br))
        print('own-property detections: %d of %d' % (k, n))
    json.dump(summary, open(os.path.join(tempfile.gettempdir(), 'rsv-corpus-last.json'), 'w'), indent=1)


if __name__ == '__main__':
    main()
