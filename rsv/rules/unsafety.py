"""C19 (and C18): per-unsafe-site obligations, position-independent.

Every unsafe operation the compiler sees in the crate (calls of unsafe fns, lifetime transmutes, raw derefs,
unsafe impls) is *classified* by what it is, and each class has its own discharge rule evaluated at that
site wherever it lives.  An unsafe operation that fits no class is reported (fail-closed): an unsafe op
without an obligation cannot be said to meet its precondition.
"""
import re

from ..core import RuleResult
from ..ir import access_paths, walk, strip, inline, resolve_closure_params
from .. import anchors
from .codec import find_buffers

PIECES = re.compile(r'\(&(\'\w+ )?str, usize\)')


def strip_lifetimes(t):
    return re.sub(r"'\w+ ?", '', t)


def unsafe_ops(f):
    """yield (body, pt, kind, node): kind in call | transmute | rawderef"""
    for b in f.body_list:
        if b.promoted is not None:
            continue
        for pt, t in b.calls():
            c = t.get('callee')
            if c and c.get('unsafe') and not t.get('x'):
                yield b, pt, 'call', t
        for pt, s in b.points():
            if s['k'] == 'assign' and s['r']['k'] == 'cast' and 'Transmute' in s['r']['ck'] and not s.get('x'):
                if s['r'].get('from_ty', '').startswith('std::ptr::NonNull<') or s['r'].get('from_ty', '').startswith('std::boxed::Box<'):
                    continue  # compiler-generated Box deref
                yield b, pt, 'transmute', s
        for pt, role, pl, node in b.places():
            if node.get('x'):
                continue
            ty = b.local_ty(pl['l'])
            if pl['pr'] and pl['pr'][0] == '*' and (ty.startswith('*const') or ty.startswith('*mut')):
                ds = b.whole_defs(pl['l'])
                if ds and all(k == 'assign' and s['r']['k'] == 'cast' and 'Transmute' in s['r']['ck'] and
                              (s['r'].get('from_ty', '').startswith('std::ptr::NonNull<') or
                               s['r'].get('from_ty', '').startswith('std::boxed::Box<')) for _, k, s in ds):
                    continue  # compiler-generated Box deref
                yield b, pt, 'rawderef', node


def nonempty_guarded(f, b, pt, recv_expr):
    """is point pt dominated by the 'not empty' edge of a test of the same vector?"""
    roots = set(strip(recv_expr, through_calls={'deref', 'as_ref', 'borrow', 'as_slice'}))
    dom = b.dom()
    for d in dom.get(pt[0], set()):
        t = b.term(d)
        if t['k'] != 'switch' or t['d']['k'] not in ('copy', 'move') or t['d']['p']['pr']:
            continue
        e = b.expr_of_local(t['d']['p']['l'])
        test = None
        if e[0] == 'call' and e[1].rsplit('::', 1)[-1] == 'is_empty' and e[2]:
            test = ('is_empty', e[2][0])
        elif e[0] == 'bin' and e[1] in ('Eq', 'Ne', 'Gt', 'Lt', 'Ge', 'Le'):
            for side, other in ((e[2], e[3]), (e[3], e[2])):
                if side[0] == 'call' and side[1].rsplit('::', 1)[-1] == 'len' and other[0] == 'const' and other[1] == 0:
                    test = ('len' + e[1], side[2][0])
        elif e[0] == 'un' and e[1] == 'Not' and e[2][0] == 'call' and e[2][1].rsplit('::', 1)[-1] == 'is_empty':
            test = ('not_empty', e[2][2][0])
        if test is None:
            continue
        troots = set(strip(test[1], through_calls={'deref', 'as_ref', 'borrow', 'as_slice'}))
        if not (roots & troots):
            continue
        # which successor means "non-empty"?
        zero_t = [x[1] for x in t['targets'] if x[0] == 0]
        other_t = [t['otherwise']] + [x[1] for x in t['targets'] if x[0] != 0]
        if test[0] in ('is_empty', 'lenEq', 'lenLe'):
            good = zero_t
        else:
            good = [x for x in other_t if x not in zero_t]
        for g in good:
            if (g == pt[0] or g in dom.get(pt[0], set())) and len(b.preds(g)) == 1:
                return True
    return False


def _borrow_class(f, b, e, to, C, R, r):
    calls = [x for x in walk(e) if x[0] == 'call']
    if any('OccupiedEntry' in x[1] and x[1].endswith('::get') for x in calls):
        cls = 'CACHE-BORROW'
        ok = any(x[0] == 'field' and x[2] == C['cached_maps'] and x[3] == C['adt'] for x in walk(e))
        why = 'referent is an entry of the write-once map cache (WRITEONCE rule keeps it alive)' if ok else \
            'OccupiedEntry::get on something other than the map cache field'
        r.assumptions.append('dashmap may move a value on resize but the borrows handed out point into Arc<str>/Arc<[String]> heap data; drops are what WRITEONCE excludes')
        return ok, why, cls
    cls = 'FROZEN-BORROW'
    via_self_method = True
    roots = strip(e, through_calls={'deref', 'index', 'borrow', 'as_ref', 'as_slice'})
    for x in roots:
        good = False
        if x[0] == 'call':
            cb = f.body(x[4] if len(x) > 4 and x[4] else x[1])
            if cb is not None and cb.d.get('impl_adt') == R['adt'] and x[2]:
                rr = [root_ for root_, fs in access_paths(x[2][0]) if root_[0] == 'arg' and root_[1] == 1 and not fs]
                if rr and 'Vec<&' in cb.d.get('sig', ''):
                    good = True
        elif x[0] == 'field' and x[2] == R['replacements'] and x[3] == R['adt']:
            good = True
        if not good:
            via_self_method = False
    if not roots:
        via_self_method = False
    fld = [fl for fl in anchors.fields(f.adts[R['adt']]) if fl['name'] == R['replacements']][0]
    ok = via_self_method and fld['freeze'] and 'Replacement' in to
    why = ('referent is an element of the replacement list reached through a &self accessor; the list is Freeze and '
           'mutation needs &mut (W-MUT)') if ok else 'operand does not provably borrow from self\'s frozen replacement list'
    return ok, why, cls


def _class_at_call_sites(f, fn, argno, to, C, R, r, depth=0):
    """the borrow class of what every call site of `fn` passes as argument `argno`; a private function that passes on (part of) one
    of its own parameters forwards the question to its callers in turn"""
    out = []
    for cb in f.body_list:
        if cb.promoted is not None:
            continue
        for cpt, ct in cb.calls():
            cc = ct.get('callee')
            if not (cc and (cc.get('resolved') or cc['path']) == fn.key) or argno - 1 >= len(ct['args']):
                continue
            e = resolve_closure_params(f, cb.expr_of_operand(ct['args'][argno - 1]))
            res = _borrow_class(f, cb, e, to, C, R, r)
            if not res[0] and depth < 3:
                croot = f.body(cb.d.get('root') or cb.path) or cb
                roots = [rt for rt, _fs in access_paths(e, through_calls={'deref', 'borrow', 'as_ref', 'unwrap', 'expect'})]
                if roots and croot is cb and not cb.d.get('pub') and cb.d['kind'] != 'Closure' and not cb.d.get('impl_trait') and \
                        all(x[0] == 'arg' and x[3] == cb.key and x[1] >= 1 for x in roots):
                    sub = []
                    for x in roots:
                        sub.extend(_class_at_call_sites(f, cb, x[1], to, C, R, r, depth + 1))
                    if sub and all(y[0] for y in sub):
                        res = (True, 'a private function forwards its parameter; every call site of it passes ' + sub[0][1], sub[0][2])
            out.append(res)
    return out


def _unsafe_fn_kind(f, body):
    """what obligation a crate-local unsafe fn forwards to its callers"""
    for m in [body] + f.closures_of(body):
        for pt, s in m.points():
            if s['k'] == 'assign' and s['r']['k'] == 'cast' and 'Transmute' in s['r']['ck'] and not s.get('x') and \
                    strip_lifetimes(s['r'].get('from_ty', '')) == strip_lifetimes(s['r']['ty']) and s['r']['ty'].startswith('&'):
                return 'lifetime-ext'
    return 'slice'


def rule_unsafe_sites(ctx, config='dev'):
    f = ctx.facts(config)
    r = RuleResult('UNSAFE-SITES', 'every unsafe operation in the crate is classified and its class obligation discharged at that site: '
                                   'ASCII-only from_utf8_unchecked (ALPHABET), lifetime transmutes only of write-once / frozen referents '
                                   '(CACHE-BORROW, FROZEN-BORROW), unchecked piece indexing guarded against the empty vector (NONEMPTY), '
                                   'unchecked str slicing only inside `unsafe fn` or with table-derived bounds (UNCHECKED-CALLERS)')
    r.floor = 4
    r.assumptions.append('NOT decided: that binary-search results index the right piece; that the char-index table yields ordered '
                         'char boundaries (rests on Rope::char_indices); schedules')
    bufs = find_buffers(f)
    C = anchors.cached_source(f)
    R = anchors.replace_source(f)
    for b, pt, kind, node in unsafe_ops(f):
        root = f.body(b.d.get('root') or b.path) or b
        in_unsafe_fn = bool(root.d.get('unsafe_fn'))
        site = node.get('s', b.span())
        if kind == 'rawderef':
            r.site('%s: raw pointer dereference' % b.path, site, 'violation')
            r.violation('%s:rawderef' % root.path, site, b.path, 'raw pointer dereference: no obligation class covers it (unaudited unsafe operation)')
            continue
        if kind == 'transmute':
            fr, to = node['r'].get('from_ty', ''), node['r']['ty']
            e = resolve_closure_params(f, b.expr_of_operand(node['r']['o']))
            if strip_lifetimes(fr) != strip_lifetimes(to) or not fr.startswith('&'):
                r.site('%s: transmute %s -> %s' % (b.path, fr, to), site, 'violation')
                r.violation('%s:transmute' % root.path, site, b.path,
                            'transmute that is not a pure lifetime extension of a shared reference (%s -> %s): unaudited' % (fr, to))
                continue
            ok, why, cls = _borrow_class(f, b, e, to, C, R, r)
            roots_ = strip(e, through_calls={'deref', 'borrow', 'as_ref'})
            if not ok and in_unsafe_fn and roots_ and all(x[0] == 'arg' and x[3] == root.key for x in roots_):
                # the unsafe fn only forwards the obligation: every call site must pass a referent that satisfies it
                sites_ = []
                for x in roots_:
                    sites_.extend(_class_at_call_sites(f, root, x[1], to, C, R, r))
                if sites_ and all(x[0] for x in sites_):
                    ok, cls = True, sites_[0][2]
                    why = 'unsafe fn forwards the obligation; every call site passes ' + sites_[0][1]
            r.site('%s: lifetime transmute %s [%s] — %s' % (b.path, strip_lifetimes(to), cls, why), site, 'ok' if ok else 'violation')
            if not ok:
                r.violation('%s:transmute:%s' % (root.path, cls), site, b.path,
                            'lifetime-extending transmute whose referent is not shown to outlive the extended borrow: ' + why)
            continue
        c = node['callee']
        n = c['name']
        rty = node['arg_tys'][0] if node['arg_tys'] else ''
        if n == 'from_utf8_unchecked':
            ok = any(b is bb and node is tt for k, lst in bufs.items() if k[0] is not None for bb, tt in lst)
            r.site('%s: from_utf8_unchecked on an encoder buffer (bytes bounded by ALPHABET)' % b.path, site, 'ok' if ok else 'violation')
            if not ok:
                r.violation('%s:from_utf8_unchecked' % root.path, site, b.path,
                            'from_utf8_unchecked on bytes that do not come from an ALPHABET-checked encoder buffer')
        elif n == 'get_unchecked' and PIECES.search(rty):
            e = b.expr_of_operand(node['args'][0])
            ok = nonempty_guarded(f, b, pt, e)
            if not ok and b.d.get('parent'):
                # closure: the guard may dominate the point where the closure is built in the parent
                par = f.body(b.d['parent'])
                for ppt, ps in par.points():
                    if ps['k'] == 'assign' and ps['r']['k'] == 'agg' and ps['r'].get('path') == b.path:
                        if nonempty_guarded(f, par, ppt, e):
                            ok = True
            r.site('%s: get_unchecked on the piece vector is dominated by a non-empty check' % b.path, site, 'ok' if ok else 'violation')
            if not ok:
                r.violation('%s:get_unchecked:pieces' % root.path, site, b.path,
                            'unchecked indexing into the piece vector is reachable with an empty vector (e.g. a rope built from an '
                            'empty iterator): index < len cannot hold — out-of-bounds read')
        elif n == 'get_unchecked' and 'str' in rty:
            ok = in_unsafe_fn
            r.site('%s: str::get_unchecked inside `unsafe fn` (precondition forwarded to the caller)' % b.path, site, 'ok' if ok else 'violation')
            if not ok:
                r.violation('%s:get_unchecked:str' % root.path, site, b.path,
                            'unchecked str slicing in a safe function: nothing forwards the range/boundary precondition')
        elif c.get('local') or c.get('crate') == f.d['crate']:
            if in_unsafe_fn:
                r.site('%s: calls unsafe fn %s from an unsafe fn (forwards its own precondition)' % (b.path, c['path']), site, 'ok')
            elif f.body(c.get('resolved') or c['path']) is not None and \
                    _unsafe_fn_kind(f, f.body(c.get('resolved') or c['path'])) == 'lifetime-ext':
                r.site('%s: calls lifetime-extending unsafe fn %s (referent checked at its transmute, per call site)' % (b.path, c['path']),
                       site, 'ok')
            else:
                ok, why = _table_bounds(f, b, node)
                r.site('%s: safe caller of unsafe fn %s — %s' % (b.path, c['path'], why), site, 'ok' if ok else 'violation')
                if not ok:
                    r.violation('%s:calls:%s' % (root.path, n), site, b.path,
                                'safe function calls unsafe fn `%s` with bounds that are not taken from the char-index table / length of the '
                                'same text: %s' % (c['path'], why))
        else:
            r.site('%s: unsafe call %s' % (b.path, c['path']), site, 'violation')
            r.violation('%s:unaudited:%s' % (root.path, n), site, b.path,
                        'call of unsafe fn `%s`: no obligation class covers it (unaudited unsafe operation, fail-closed)' % c['path'])
    # unsafe blocks without a classified op
    ops_by_root = {}
    for b, pt, kind, node in unsafe_ops(f):
        ops_by_root.setdefault(b.d.get('root') or b.path, []).append(int(node.get('s', ':0:').split(':')[-2]))
    for u in f.unsafe_blocks:
        if not u['user'] or u['x']:
            continue
        lo = int(u['span'].split(':')[-2])
        hi = u['end_line']
        ok = any(lo <= ln <= hi for ln in ops_by_root.get(u['root'], []))
        r.site('unsafe block in %s contains a classified operation' % u['owner'], u['span'], 'ok' if ok else 'violation')
        if not ok:
            r.violation('%s:empty-unsafe-block' % u['root'], u['span'], u['owner'],
                        'unsafe block whose operation the classifier does not see (unaudited unsafe operation)')
    r.check_floor()
    return r


def _table_bounds(f, b, t):
    """range argument {start, end} of an unchecked slice call: each bound must come from `table.get(i)` (table = get_or_init cell
    filled from char_indices of the same text) with the text length as fallback; helper methods / closures are looked through"""
    rng = None
    for a in t['args'][1:]:
        e = inline(f, b.expr_of_operand(a), depth=3)
        for x in walk(e):
            if x[0] == 'agg' and x[2] and x[2].endswith('ops::Range'):
                rng = x
    if rng is None:
        return False, 'range argument is not a Range literal'
    init_ok = False
    for o in rng[5]:
        ok = False
        for x in walk(o):
            if x[0] == 'call' and x[1].rsplit('::', 1)[-1] in ('unwrap_or', 'map_or', 'unwrap_or_else') and len(x[2]) >= 2:
                tab = x[2][0]
                fbs = x[2][1:]
                gets = [y for y in walk(tab) if y[0] == 'call' and y[1].rsplit('::', 1)[-1] == 'get']
                has_get = any(any(z[0] == 'call' and z[1].rsplit('::', 1)[-1] == 'get_or_init' for z in walk(y)) for y in gets)
                has_len = any(y[0] == 'call' and y[1].rsplit('::', 1)[-1] == 'len' for fb in fbs for y in walk(fb))
                if has_get and has_len:
                    ok = True
                    for y in gets:
                        for z in walk(y):
                            if z[0] == 'call' and z[1].rsplit('::', 1)[-1] == 'get_or_init':
                                for w in walk(z):
                                    if w[0] == 'agg' and w[1] == 'closure':
                                        cb = f.body(w[2])
                                        if cb is not None and any(tt.get('callee') and tt['callee']['name'] == 'char_indices'
                                                                  for _, tt in cb.calls()):
                                            init_ok = True
        if not ok:
            return False, 'a bound is not `table.get(i)` with the text length as fallback'
    if not init_ok:
        return False, 'index table is not filled from char_indices'
    return True, 'bounds come from the char_indices table or the text length'


def rule_no_unsafe_sync(ctx, config='dev'):
    f = ctx.facts(config)
    r = RuleResult('NO-UNSAFE-SYNC', 'no hand-written `unsafe impl` (Send/Sync or otherwise) in the crate: thread-safety of the source '
                                     'types is derived by the compiler from their fields')
    r.floor = 1
    n = 0
    for i in f.impls:
        if i.get('unsafe'):
            n += 1
            ok = i.get('derived') and i.get('from_expansion')
            r.site('unsafe impl %s for %s (derive-generated=%s)' % (i.get('trait'), i['self_ty'], ok), i['span'], 'ok' if ok else 'violation')
            if not ok:
                r.violation('%s:%s' % (i['self_ty'], i.get('trait')), i['span'], i['self_ty'],
                            'hand-written `unsafe impl %s for %s`: data-race freedom is no longer the compiler\'s' % (i.get('trait'), i['self_ty']))
    r.site('census: %d unsafe impls, all derive-generated marker impls' % n, '(crate)', 'ok')
    # Send/Sync impls written safely are impossible; negative impls are fine
    r.check_floor()
    return r


# ---------------------------------------------------------------------------------- RANGE-VALIDATED (C19)

def _range_check_fn(f, b, bounds, targets, payload_of):
    """under every present/absent combination of the two bounds, which required comparisons can be bypassed on a path to `targets`?
    returns list of (what, s_some, e_some)"""
    def disc_of(op, assume):
        if op['k'] not in ('copy', 'move') or op['p']['pr']:
            return None
        ds = b.whole_defs(op['p']['l'])
        if len(ds) != 1 or ds[0][1] != 'assign' or ds[0][2]['r']['k'] != 'discr':
            return None
        pl = ds[0][2]['r']['p']
        l = pl['l']
        if pl['pr'] and isinstance(pl['pr'][0], dict) and 'f' in pl['pr'][0] and len(pl['pr']) == 1:
            tds = b.whole_defs(l)
            if len(tds) == 1 and tds[0][1] == 'assign' and tds[0][2]['r']['k'] == 'agg' and tds[0][2]['r'].get('ak') == 'tuple':
                o2 = tds[0][2]['r']['ops'][pl['pr'][0]['f']]
                for _ in range(6):
                    if o2['k'] not in ('copy', 'move') or o2['p']['pr']:
                        break
                    if o2['p']['l'] in assume:
                        return assume[o2['p']['l']]
                    d2 = b.whole_defs(o2['p']['l'])
                    if len(d2) == 1 and d2[0][1] == 'assign' and d2[0][2]['r']['k'] == 'use':
                        o2 = d2[0][2]['r']['o']
                    else:
                        break
            return None
        if not pl['pr'] and l in assume:
            return assume[l]
        return None

    def reach(assume, blocked):
        seen, st = set(), [0]
        while st:
            x = st.pop()
            if x in seen or x in blocked:
                continue
            seen.add(x)
            t = b.term(x)
            if t['k'] == 'switch':
                d = disc_of(t['d'], assume)
                if d is not None:
                    tm = {v: tb for v, tb in t['targets']}
                    st.append(tm.get(d, t['otherwise']))
                    continue
            st.extend(b.succs(x))
        return seen
    cmp_len = {'start': set(), 'end': set()}
    cmp_se = set()
    for pt, s in b.points():
        if s['k'] == 'assign' and s['r']['k'] == 'bin' and s['r']['op'] in ('Gt', 'Lt', 'Ge', 'Le'):
            ea, eb = b.expr_of_operand(s['r']['a']), b.expr_of_operand(s['r']['b'])
            for which in ('start', 'end'):
                for x, y in ((ea, eb), (eb, ea)):
                    if payload_of(x, which) and any(z[0] == 'call' and z[1].rsplit('::', 1)[-1] == 'len' for z in walk(y)):
                        cmp_len[which].add(pt[0])
            if (payload_of(ea, 'start') and payload_of(eb, 'end')) or (payload_of(ea, 'end') and payload_of(eb, 'start')):
                cmp_se.add(pt[0])
    out = []
    for s_some in (0, 1):
        for e_some in (0, 1):
            assume = {bounds['start']: s_some, bounds['end']: e_some}
            needs = []
            if e_some:
                needs.append(('end <= len', cmp_len['end']))
            if s_some and not e_some:
                needs.append(('start <= len', cmp_len['start']))
            if s_some and e_some:
                needs.append(('start <= end', cmp_se))
            for what, blocks in needs:
                rr = reach(assume, blocks)
                out.append((what, s_some, e_some, not (targets & rr)))
    return out


def rule_range_validated(ctx, config='dev'):
    """safe slicing functions validate the requested range before any unchecked piece access"""
    f = ctx.facts(config)
    r = RuleResult('RANGE-VALIDATED', 'a safe function that indexes the piece vector unchecked first validates the requested range: for every '
                                      'combination of present / absent range bounds, each path to the unchecked access compares the present '
                                      'end (or lone start) with the rope length, and start with end when both are present (directly, or in a '
                                      'validator function whose error is propagated)')
    r.floor = 1
    for b in f.body_list:
        if b.promoted is not None or b.d['kind'] == 'Closure' or b.d.get('unsafe_fn'):
            continue
        members = [b] + f.closures_of(b)
        unchecked = [(m, pt) for m in members for pt, t in m.calls()
                     if t.get('callee') and t['callee']['name'] == 'get_unchecked' and t['arg_tys'] and PIECES.search(t['arg_tys'][0])]
        if not unchecked:
            continue
        bounds = {}
        for l in range(1, len(b.locals)):
            if 'Option<usize>' not in b.local_ty(l) or b.local_ty(l).startswith('&') or not b.whole_defs(l):
                continue
            if not b.local_name(l) and any(k2 != 'call' for _, k2, _ in b.whole_defs(l)):
                continue
            e = inline(f, b.expr_of_local(l), depth=2)
            names = {x[1].rsplit('::', 1)[-1] for x in walk(e) if x[0] == 'call'}
            if 'start_bound' in names and 'end_bound' not in names:
                bounds.setdefault('start', l)
            elif 'end_bound' in names and 'start_bound' not in names:
                bounds.setdefault('end', l)
        if set(bounds) != {'start', 'end'}:
            r.site('%s: range bounds not identified' % b.path, b.span(), 'violation')
            r.violation('%s:bounds' % b.path, b.span(), b.path,
                        'cannot identify the start / end bounds of the requested range (unrecognised idiom, fail-closed)', reason='unrecognised-idiom')
            continue
        targets = set()
        for m, pt in unchecked:
            if m is b:
                targets.add(pt[0])
            else:
                for ppt, ps in b.points():
                    if ps['k'] == 'assign' and ps['r']['k'] == 'agg' and ps['r'].get('path') == m.path:
                        targets.add(ppt[0])

        def payload_caller(e, which):
            e = inline(f, e, depth=2)
            names = {x[1].rsplit('::', 1)[-1] for x in walk(e) if x[0] == 'call'}
            return ('start_bound' if which == 'start' else 'end_bound') in names
        res = _range_check_fn(f, b, bounds, targets, payload_caller)
        where = b
        if not all(ok for _, _, _, ok in res):
            # delegated: a validator function receives both bounds, its error is propagated, and the call dominates the accesses
            for pt, t in b.calls():
                c = t.get('callee')
                vb = f.body(c.get('resolved') or c['path']) if c else None
                if vb is None or vb.d['kind'] == 'Closure' or 'Result<' not in b.local_ty(t['dest']['l']):
                    continue
                pos = {}
                for i, a in enumerate(t['args']):
                    if a['k'] in ('copy', 'move') and not a['p']['pr']:
                        src = a['p']['l']
                        ds = b.whole_defs(src)
                        if len(ds) == 1 and ds[0][1] == 'assign' and ds[0][2]['r']['k'] == 'use' and ds[0][2]['r']['o']['k'] in ('copy', 'move') \
                                and not ds[0][2]['r']['o']['p']['pr']:
                            src = ds[0][2]['r']['o']['p']['l']
                        for which, bl in bounds.items():
                            if src == bl:
                                pos[which] = i + 1
                if set(pos) != {'start', 'end'}:
                    continue
                propagated = any(t2.get('callee') and t2['callee']['name'] == 'branch' and t2['args'] and
                                 t2['args'][0]['k'] in ('move', 'copy') and t2['args'][0]['p']['l'] == t['dest']['l'] for _, t2 in b.calls())
                dominates = all(b.dominates(pt, (tb, 0)) for tb in targets)
                if not (propagated and dominates):
                    continue
                ok_targets = {p2[0] for p2, s2 in vb.points() if s2['k'] == 'assign' and not s2['p']['pr'] and s2['p']['l'] == 0
                              and s2['r']['k'] == 'agg' and s2['r'].get('variant') == 'Ok'}

                def payload_v(e, which, vb=vb, pos=pos):
                    return any(x[0] == 'arg' and x[3] == vb.key and x[1] == pos[which] for x in walk(e))
                res = _range_check_fn(f, vb, pos, ok_targets, payload_v)
                where = vb
                break
        for what, s_some, e_some, ok in res:
            r.site('%s: bounds (start %s, end %s): `%s` is checked on every path to the unchecked access' % (
                where.path, 'present' if s_some else 'absent', 'present' if e_some else 'absent', what), where.span(), 'ok' if ok else 'violation')
            if not ok:
                r.violation('%s:%s:%d%d' % (b.path, what.replace(' ', ''), s_some, e_some), where.span(), b.path,
                            'with start %s and end %s the unchecked piece access is reachable without checking `%s`: an out-of-range '
                            'request indexes past the piece vector' % ('present' if s_some else 'absent',
                                                                        'present' if e_some else 'absent', what))
    r.check_floor()
    return r
