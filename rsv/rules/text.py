"""TEXT, OPTS-LIT, UNWRAP-TEXT (C01, C08, C17): every chunk delivered when final_source = false carries its text."""
from ..core import RuleResult
from ..ir import walk, strip
from .. import anchors
from ..sccp import Sccp, TOP
from .streams import callback_calls, closure_kind, is_outer_callback, THROUGH

RANK = {'TEXT': 0, 'MAYBE': 1, 'NONE': 2}


def worst(a, b):
    if a is None:
        return b
    if b is None:
        return a
    return a if RANK[a] >= RANK[b] else b


class TextAnalysis:
    def __init__(self, f, entry):
        self.f = f
        self.entry = entry
        self.S = Sccp(f, entry, {False})
        self._cl = {}

    def live_bodies(self):
        return [self.f.body(k) for k in self.S.live_bodies]

    def classify_operand(self, b, o, depth=0, seen=()):
        if depth > 25:
            return 'MAYBE'
        if o['k'] == 'const':
            return 'MAYBE'
        if o['k'] not in ('copy', 'move'):
            return 'MAYBE'
        p = o['p']
        if p['pr']:
            return 'MAYBE'
        L = p['l']
        if b.d['kind'] == 'Closure' and 2 <= L <= b.arg_count and not b.whole_defs(L):
            return self.closure_param_class(b)
        res = None
        for pt, k, s in b.whole_defs(L):
            if not self.S.reachable(b, pt[0]):
                continue
            if k == 'assign':
                r = s['r']
                if r['k'] == 'agg' and r.get('ak') == 'adt' and (r.get('path') or '').endswith('option::Option'):
                    res = worst(res, 'TEXT' if r['variant'] == 'Some' else 'NONE')
                elif r['k'] == 'use':
                    res = worst(res, self.classify_operand(b, r['o'], depth + 1, seen))
                else:
                    res = worst(res, 'MAYBE')
            else:
                c = s.get('callee')
                n = c['name'] if c else ''
                if n == 'then_some' and len(s['args']) == 2:
                    cv = self.S.eval_operand(b, s['args'][0])
                    res = worst(res, 'TEXT' if cv == {True} else 'NONE' if cv == {False} else 'MAYBE')
                elif n in ('clone', 'cloned', 'map', 'take') and s['args']:
                    a = s['args'][0]
                    # clone(&x): follow the reference
                    if a['k'] in ('copy', 'move') and not a['p']['pr']:
                        ds = b.whole_defs(a['p']['l'])
                        if len(ds) == 1 and ds[0][1] == 'assign' and ds[0][2]['r']['k'] == 'ref' and not ds[0][2]['r']['p']['pr']:
                            a = {'k': 'copy', 'p': ds[0][2]['r']['p']}
                    res = worst(res, self.classify_operand(b, a, depth + 1, seen))
                else:
                    res = worst(res, 'MAYBE')
        return res or 'MAYBE'

    def closure_param_class(self, K):
        """class of the `chunk` parameter of an internal chunk-callback closure K, from the stream calls that feed it"""
        if K.key in self._cl:
            return self._cl[K.key] or 'MAYBE'
        self._cl[K.key] = None
        res = None
        fed = False
        for b in self.live_bodies():
            for pt, t in b.calls():
                if not self.S.reachable(b, pt[0]):
                    continue
                c = t.get('callee')
                if not c:
                    continue
                for i, a in enumerate(t['args']):
                    e = b.expr_of_operand(a)
                    if not any(x[0] == 'agg' and x[1] == 'closure' and x[2] == K.path for x in strip(e, through_calls=set())):
                        continue
                    fed = True
                    tgt = self.f.body(c.get('resolved') or c['path'])
                    if c['name'] == 'stream_chunks' and tgt is None or (tgt is not None and tgt.name == 'stream_chunks'
                                                                        and tgt.d.get('impl_trait')):
                        # trait call: (self, options, on_chunk, on_source, on_name)
                        ov = self.S.eval_options_place(b, t['args'][1]['p']) if t['args'][1]['k'] in ('copy', 'move') else TOP
                        res = worst(res, 'TEXT' if ov == {False} else 'MAYBE')
                    elif tgt is not None:
                        # crate-local helper: class of what it passes to that parameter
                        res = worst(res, self.param_callback_class(tgt, i + 1))
                    else:
                        res = worst(res, 'MAYBE')
        if not fed:
            res = 'MAYBE'
        self._cl[K.key] = res
        return res

    def param_callback_class(self, G, param):
        """join of the classes of all reachable chunk-callback calls in G's group whose callee object is G's parameter"""
        res = None
        members = [m for m in self.f.body_list if m.promoted is None and (m.d.get('root') or m.path) == G.path]
        for m in members:
            if m.key not in self.S.live_bodies:
                continue
            for pt, t, kind, ops in callback_calls(m):
                if kind != 'chunk' or not self.S.reachable(m, pt[0]):
                    continue
                roots = strip(m.expr_of_operand(t['args'][0]), through_calls=THROUGH)
                if not any(r[0] == 'arg' and r[3] == G.key and r[1] == param for r in roots):
                    continue
                res = worst(res, self.call_class(m, t))
        # G may itself forward the parameter to further helpers / children
        for m in members:
            if m.key not in self.S.live_bodies:
                continue
            for pt, t in m.calls():
                c = t.get('callee')
                if not c or not self.S.reachable(m, pt[0]) or c['name'] in ('call_mut', 'call', 'call_once'):
                    continue
                for i, a in enumerate(t['args']):
                    if 'dyn' not in t['arg_tys'][i] or 'Mapping' not in t['arg_tys'][i]:
                        continue
                    roots = strip(m.expr_of_operand(a), through_calls=THROUGH)
                    if any(r[0] == 'arg' and r[3] == G.key and r[1] == param for r in roots):
                        tgt = self.f.body(c.get('resolved') or c['path'])
                        if tgt is not None and tgt.d.get('impl_trait') is None:
                            res = worst(res, self.param_callback_class(tgt, i + 1))
                        else:
                            ov = self.S.eval_options_place(m, t['args'][1]['p']) if len(t['args']) > 1 and \
                                t['args'][1]['k'] in ('copy', 'move') else TOP
                            res = worst(res, 'TEXT' if ov == {False} else 'MAYBE')
        return res or 'TEXT'

    def call_class(self, b, t):
        """class of the first tuple element of a chunk-callback call"""
        tup = t['args'][1]
        if tup['k'] not in ('copy', 'move') or tup['p']['pr']:
            return 'MAYBE'
        res = None
        for pt, k, s in b.whole_defs(tup['p']['l']):
            if k == 'assign' and s['r']['k'] == 'agg' and s['r'].get('ak') == 'tuple':
                res = worst(res, self.classify_operand(b, s['r']['ops'][0]))
            else:
                res = worst(res, 'MAYBE')
        return res or 'MAYBE'


def entries(f):
    st = anchors.trait_path(f, 'StreamChunks')
    es = [b for b in f.body_list if b.promoted is None and b.d['kind'] != 'Closure' and b.d.get('impl_trait') == st
          and b.name == 'stream_chunks']
    es += [b for b in f.body_list if b.promoted is None and b.name == 'stream_chunks_default' and b.d.get('pub')]
    return es


def rule_text(ctx):
    f = ctx.facts()
    r = RuleResult('TEXT', 'every chunk delivered to a caller-supplied callback carries its text whenever the stream was requested with '
                           'final_source = false (the only value outside callers can construct): text-less emissions are unreachable '
                           'under that assumption, `then_some` conditions evaluate to true, forwarded chunks come from text-carrying streams')
    r.floor = 15
    r.assumptions.append('user-defined child sources honour the StreamChunks contract (induction over the tree)')
    es = entries(f)
    if len(es) < 10:
        raise anchors.AnchorMissing('expected 9 StreamChunks impls + stream_chunks_default, found %d' % len(es))
    seen_sites = set()
    pruned = 0
    for e in es:
        A = TextAnalysis(f, e)
        for b in A.live_bodies():
            root = A.S.root_of(b)
            ctxv = A.S.ctx.get(root.key, {})
            required = all(v == {False} for v in ctxv.values())
            for pt, t, kind, ops in callback_calls(b):
                if kind != 'chunk' or not is_outer_callback(f, b, t, root.key):
                    continue
                if not A.S.reachable(b, pt[0]):
                    pruned += 1
                    r.site('[%s] %s: text-less / alternative emission unreachable when final_source=false' % (e.name if e.d.get('impl_self') is None else e.d['impl_self'], b.path),
                           t['s'], 'ok', pruned=True)
                    continue
                if not required:
                    continue
                cls = A.call_class(b, t)
                ok = cls == 'TEXT'
                r.site('[%s] %s: delivered chunk is %s' % (e.d.get('impl_self') or e.name, b.path, cls), t['s'], 'ok' if ok else 'violation')
                if not ok:
                    r.violation('%s' % b.path, t['s'], b.path,
                                'with final_source = false this call can deliver a chunk without text (%s) to the caller\'s callback '
                                '(entry %s): outside callers and ReplaceSource\'s `chunk.unwrap()` receive None' % (cls, e.path))
    r.info('%d text-less emission sites proved unreachable under the assumption' % pruned)
    r.check_floor()
    return r


def _param_source(b, o):
    from .panics import source_place
    p = source_place(b, o)
    if p is not None and not p['pr']:
        return p['l']
    return None


def rule_unwrap_text(ctx):
    f = ctx.facts()
    r = RuleResult('UNWRAP-TEXT', '`chunk.unwrap()` inside internal chunk callbacks cannot panic: the stream feeding each such closure is '
                                  'requested with final_source = false, so TEXT guarantees Some')
    r.floor = 1
    for e in entries(f):
        A = None
        for b in f.body_list:
            if b.promoted is not None or b.d['kind'] != 'Closure' or closure_kind(b) != 'chunk':
                continue
            if (b.d.get('root') or '') != e.path and not (b.d.get('root') or '').startswith('helpers::'):
                continue
            for pt, t in b.calls():
                c = t.get('callee')
                sp = _param_source(b, t['args'][0]) if (c and c['name'] in ('unwrap', 'expect') and t['args']) else None
                if sp == 2:
                    if A is None:
                        A = TextAnalysis(f, e)
                    if b.key not in A.S.live_bodies:
                        continue
                    cls = A.closure_param_class(b)
                    ok = cls == 'TEXT'
                    r.site('[%s] %s: chunk.unwrap() — feeding stream delivers %s' % (e.d.get('impl_self') or e.name, b.path, cls), t['s'],
                           'ok' if ok else 'violation')
                    if not ok:
                        r.violation('%s:unwrap' % b.path, t['s'], b.path,
                                    '`chunk.unwrap()` but the stream feeding this closure is not provably requested with final_source = false')
    r.check_floor()
    return r


def rule_opts_lit(ctx):
    f = ctx.facts()
    r = RuleResult('OPTS-LIT', 'a MapOptions value with final_source != false never escapes: it is built only as a temporary passed by '
                               'reference into a streaming call')
    r.floor = 3
    mo = anchors.adt_by_name(f, 'MapOptions')['path']
    for b in f.body_list:
        if b.promoted is not None:
            continue
        for pt, s in b.points():
            if not (s['k'] == 'assign' and s['r']['k'] == 'agg' and s['r'].get('path') == mo):
                continue
            o = dict(zip(s['r']['fields'], s['r']['ops']))['final_source']
            const_false = o['k'] == 'const' and o.get('bool') is False
            if not const_false and o['k'] in ('copy', 'move'):
                # ..Default::default(): field of the value returned by a local fn that builds a literal
                e = b.expr_of_operand(o)
                if any(x[0] == 'field' and x[2] == 'final_source' and x[3] == mo and x[1][0] != 'call' for x in walk(e)):
                    r.site('%s: copies final_source of an existing MapOptions (Clone)' % b.path, s['s'], 'ok')
                    continue
                for x in walk(e):
                    if x[0] == 'call' and x[1].rsplit('::', 1)[-1] == 'default':
                        cb = f.body(x[1]) or next((bb for bb in f.body_list if bb.name == 'default' and bb.d.get('impl_adt') == mo), None)
                        if cb is not None:
                            for _, s2 in cb.points():
                                if s2['k'] == 'assign' and s2['r']['k'] == 'agg' and s2['r'].get('path') == mo:
                                    o2 = dict(zip(s2['r']['fields'], s2['r']['ops']))['final_source']
                                    if o2['k'] == 'const' and o2.get('bool') is False:
                                        const_false = True
            if const_false:
                r.site('%s: MapOptions literal with final_source = false' % b.path, s['s'], 'ok')
                continue
            # must be a temporary used only by reference (possibly re-borrowed) as a stream-call argument
            L = s['p']['l']
            ok = not s['p']['pr'] and L != 0
            aliases, work = set(), [(L, True)]
            while work and ok:
                cur, is_value = work.pop()
                if cur in aliases:
                    continue
                aliases.add(cur)
                for pt2, role, pl, node in b.places():
                    if pl['l'] != cur or role == 'write' or role == 'drop':
                        continue
                    if role == 'ref' and node['k'] == 'assign' and (pl['pr'] == [] if is_value else pl['pr'] == ['*']) \
                            and not node['p']['pr']:
                        work.append((node['p']['l'], False))
                    elif not is_value and node['k'] == 'call' and node.get('callee') and \
                            (node['callee']['name'] == 'stream_chunks' or node['callee'].get('local')) and not pl['pr']:
                        continue
                    elif not is_value and node['k'] == 'assign' and node['r']['k'] == 'use' and not pl['pr'] and not node['p']['pr'] \
                            and node['p']['l'] != 0:
                        work.append((node['p']['l'], False))
                    else:
                        ok = False
            r.site('%s: MapOptions literal with final_source != false is a by-reference temporary of a stream call' % b.path, s['s'],
                   'ok' if ok else 'violation')
            if not ok:
                r.violation('%s:escapes' % b.path, s['s'], b.path,
                            'a MapOptions with final_source possibly true is returned, stored or handed to something other than a '
                            'streaming call: outside code could obtain text-less streams')
    r.check_floor()
    return r
