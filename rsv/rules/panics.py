"""DECODER-TOTAL, JSON-ENTRY, UNWRAP-TEXT (C17): panic-freedom of the two parser cones by discharging every
panic-capable MIR terminator with a local argument; termination of the decoder loop."""
from ..core import RuleResult
from ..ir import walk, access_paths
from .. import anchors
from ..rng import Ranges, ty_range, dominating_upper_bounds, place_key

# std callees known not to panic (by def-path suffix / name + receiver type)
NOPANIC_NAMES = {
    'iter', 'as_bytes', 'next', 'into_iter', 'len', 'is_empty', 'as_ref', 'deref', 'as_str', 'clone', 'into',
    'from', 'branch', 'from_residual', 'from_output', 'map', 'unwrap_or_default', 'collect', 'to_vec', 'map_err',
    'default', 'try_into', 'try_from', 'as_deref', 'drop', 'ok', 'err', 'from_iter', 'unwrap_or',
    'then_some', 'is_some', 'is_none', 'copied', 'cloned', 'min', 'max', 'eq', 'ne', 'cmp', 'get', 'take',
    'wrapping_add', 'wrapping_sub', 'wrapping_shl', 'wrapping_shr', 'wrapping_neg', 'saturating_add', 'saturating_sub',
    'checked_add', 'checked_sub', 'checked_shl', 'checked_shr', 'checked_neg', 'leading_zeros', 'trailing_zeros',
    'is_empty', 'first', 'last', 'as_mut', 'get_mut', 'unwrap_or_else', 'and_then', 'filter', 'replace',
    'then', 'map_or', 'map_or_else', 'is_some_and', 'zip', 'or', 'or_else', 'xor', 'not', 'bitand', 'bitor', 'abs_diff',
    'from_u32', 'to_le_bytes', 'to_be_bytes', 'rotate_left', 'rotate_right', 'count_ones', 'swap_bytes',
}
PANICKY_NAMES = {'unwrap', 'expect', 'index', 'index_mut', 'panic', 'panic_fmt', 'unreachable', 'assert_failed',
                 'expect_err', 'unwrap_err', 'split_at', 'copy_from_slice', 'swap', 'remove', 'insert', 'drain',
                 'slice_index_fail', 'panic_bounds_check', 'begin_panic', 'borrow', 'borrow_mut', 'lock'}


def local_cone(f, entry):
    """crate-local bodies reachable from entry (including closures of members and impls of types they construct)"""
    seen = {}
    work = [entry]
    while work:
        b = work.pop()
        root = b.d.get('root') or b.path
        if root in seen:
            continue
        members = [m for m in f.body_list if m.promoted is None and (m.d.get('root') or m.path) == root]
        seen[root] = members
        for m in members:
            for pt, t in m.calls():
                c = t.get('callee')
                if not c:
                    continue
                for p in (c.get('resolved'), c.get('path')):
                    cb = f.body(p) if p else None
                    if cb is not None:
                        work.append(cb)
                        break
                if c['name'] in ('try_into', 'into'):
                    # blanket impls in core forward to the crate's TryFrom / From impl for the target type
                    want = 'try_from' if c['name'] == 'try_into' else 'from'
                    for sh in c.get('tshapes', []):
                        if isinstance(sh, dict) and sh.get('adt') in f.adts:
                            for ib in f.impl_bodies(sh['adt'], name=want):
                                work.append(ib)
            for pt, s in m.points():
                if s['k'] == 'assign' and s['r']['k'] == 'agg' and s['r'].get('ak') == 'adt' and s['r'].get('path') in f.adts:
                    for ib in f.impl_bodies(s['r']['path']):
                        if ib.d.get('impl_trait', '').endswith('Iterator'):
                            work.append(ib)
    return seen


def loops(body):
    """natural loops: header -> set of back-edge sources"""
    out = {}
    dom = body.dom()
    for u in dom:
        for v in body.succs(u):
            if v in dom.get(u, set()):
                out.setdefault(v, set()).add(u)
    return out


def loop_blocks(body, header, sources):
    blocks = {header}
    st = list(sources)
    while st:
        x = st.pop()
        if x in blocks:
            continue
        blocks.add(x)
        st.extend(body.preds(x))
    return blocks


def source_place(body, o):
    """follow a single-def copy chain of an operand back to the place it reads"""
    seen = 0
    while o['k'] in ('copy', 'move') and not o['p']['pr'] and seen < 10:
        ds = body.whole_defs(o['p']['l'])
        if len(ds) == 1 and ds[0][1] == 'assign' and ds[0][2]['r']['k'] == 'use' and ds[0][2]['r']['o']['k'] in ('copy', 'move') \
                and len(body.defs(o['p']['l'])) == 1:
            o = ds[0][2]['r']['o']
            seen += 1
        else:
            break
    if o['k'] in ('copy', 'move'):
        return o['p']
    return None


def counter_rule(body, place, inc, lps):
    """per-byte counter: every write to `place` in the body is a constant or `place + c` (checked add), the function has
    exactly one natural loop, that loop consumes one element of a slice iterator per iteration (the `next` call
    dominates every back edge), so the counter grows by at most max(c) per input byte"""
    key = place_key(place)
    if key is None:
        return False, 'dynamic place'
    if len(lps) == 0:
        return helper_counter_rule(body, place, key)
    if len(lps) != 1:
        return False, 'expected exactly one loop, found %d' % len(lps)
    header, srcs = next(iter(lps.items()))
    # iterator consumption
    nexts = []
    for pt, t in body.calls():
        c = t.get('callee')
        if c and c['name'] == 'next' and t['args'] and 'slice::Iter' in t['arg_tys'][0]:
            nexts.append(pt)
    if not any(all(body.dominates(n, (s, 0)) for s in srcs) for n in nexts):
        return False, 'no slice-iterator `next` dominating every back edge'
    incs = []
    for pt, s in body.points():
        if s['k'] == 'assign' and place_key(s['p']) == key:
            r = s['r']
            if r['k'] == 'use' and r['o']['k'] == 'const' and 'int' in r['o']:
                continue
            if r['k'] == 'use' and r['o']['k'] in ('move', 'copy'):
                p = r['o']['p']
                ds = body.whole_defs(p['l'])
                if p['pr'] and p['pr'][0].get('f') == 0 and len(ds) == 1 and ds[0][2]['r']['k'] == 'bin' and \
                        ds[0][2]['r']['op'] in ('AddWithOverflow', 'Add'):
                    rr = ds[0][2]['r']
                    if rr['a']['k'] in ('copy', 'move') and place_key(rr['a']['p']) == key and rr['b']['k'] == 'const':
                        incs.append(rr['b']['int'])
                        continue
            if r['k'] == 'bin' and r['op'] == 'Add' and r['a']['k'] in ('copy', 'move') and \
                    place_key(r['a']['p']) == key and r['b']['k'] == 'const':
                incs.append(r['b']['int'])
                continue
            return False, 'counter is written by something other than a constant or a constant increment'
    return True, 'grows by at most %d per input byte' % (max(incs) if incs else 0)


def _const_incs(body, key):
    """constant increments written to the place (None if it is written by anything but a constant or `place + c`), with points"""
    incs = []
    for pt, s in body.points():
        if s['k'] == 'assign' and place_key(s['p']) == key:
            r = s['r']
            if r['k'] == 'use' and r['o']['k'] == 'const' and 'int' in r['o']:
                continue
            if r['k'] == 'use' and r['o']['k'] in ('move', 'copy'):
                p = r['o']['p']
                ds = body.whole_defs(p['l'])
                if p['pr'] and p['pr'][0].get('f') == 0 and len(ds) == 1 and ds[0][2]['r']['k'] == 'bin' and \
                        ds[0][2]['r']['op'] in ('AddWithOverflow', 'Add'):
                    rr = ds[0][2]['r']
                    if rr['a']['k'] in ('copy', 'move') and place_key(rr['a']['p']) == key and rr['b']['k'] == 'const':
                        incs.append((pt, rr['b']['int']))
                        continue
            if r['k'] == 'bin' and r['op'] == 'Add' and r['a']['k'] in ('copy', 'move') and \
                    place_key(r['a']['p']) == key and r['b']['k'] == 'const':
                incs.append((pt, r['b']['int']))
                continue
            return None
    return incs


def _guarding_bool_params(body, pt):
    """parameters p (bool, never reassigned) such that pt is only reached over the *true* edge of a switch on p"""
    out = set()
    dom = body.dom().get(pt[0], set())
    for d in dom:
        t = body.term(d)
        if t['k'] != 'switch':
            continue
        sp = source_place(body, t['d'])
        if sp is None or sp['pr'] or not body.is_arg(sp['l']) or body.local_ty(sp['l']) != 'bool' or body.defs(sp['l']):
            continue
        false_t = [x[1] for x in t['targets'] if x[0] == 0]
        if not false_t:
            continue
        g = t['otherwise']
        if (g == pt[0] or g in dom) and len(body.preds(g)) == 1 and g not in false_t:
            out.add(sp['l'])
    return out


def helper_counter_rule(body, place, key):
    """per-byte counter kept in a loop-free private helper: the helper adds a constant at most once per call; every caller in
    the crate calls it either from inside its single loop, which consumes one element of a slice iterator per iteration, or
    with a constant `false` for a flag parameter whose true edge guards every increment (then that call never increments)"""
    f = body.facts
    if body.d['kind'] == 'Closure' or body.d.get('pub') or body.d.get('vis') == 'pub' or body.d.get('impl_trait'):
        return False, 'counter incremented outside a loop in a function that is not a private helper'
    if not place['pr'] or not body.is_arg(place['l']) or not body.local_ty(place['l']).startswith('&mut'):
        return False, 'helper counter is not a field behind a `&mut` parameter'
    incs = _const_incs(body, key)
    if incs is None:
        return False, 'counter is written by something other than a constant or a constant increment'
    guards = None
    for pt, c in incs:
        g = _guarding_bool_params(body, pt)
        guards = g if guards is None else (guards & g)
    guards = guards or set()
    callers = 0
    for cb in f.body_list:
        if cb.promoted is not None:
            continue
        for cpt, ct in cb.calls():
            c = ct.get('callee')
            if not c or (c.get('resolved') or c['path']) != body.key:
                continue
            callers += 1
            if any(ct['args'][g - 1]['k'] == 'const' and (ct['args'][g - 1].get('bool') is False or ct['args'][g - 1].get('int') == 0)
                   for g in guards if g - 1 < len(ct['args'])):
                continue                              # this call cannot reach an increment
            lps = loops(cb)
            if len(lps) != 1:
                return False, 'caller %s: expected exactly one loop, found %d' % (cb.path, len(lps))
            header, srcs = next(iter(lps.items()))
            if cpt[0] not in loop_blocks(cb, header, srcs):
                return False, 'caller %s calls the helper outside its loop with the increment enabled' % cb.path
            nexts = [npt for npt, nt in cb.calls() if nt.get('callee') and nt['callee']['name'] == 'next' and nt['args']
                     and 'slice::Iter' in nt['arg_tys'][0]]
            if not any(all(cb.dominates(n, (s_, 0)) for s_ in srcs) for n in nexts):
                return False, 'caller %s: no slice-iterator `next` dominating every back edge' % cb.path
    if callers == 0:
        return False, 'helper has no caller in the crate'
    return True, 'helper called once per input byte; grows by at most %d per call' % (max(c for _, c in incs) if incs else 0)


def discharge_assert(body, pt, t, R, lps):
    m = t['msg']
    k = m['kind']
    if k == 'BoundsCheck':
        ln = m['len']
        n = ln.get('int') if ln['k'] == 'const' else None
        if n is None:
            lr = R.of_operand(ln)
            n = lr[0] if lr else None
        ir = R.of_operand(m['index'])
        if n is not None and ir is not None and ir[1] < n and ir[0] >= 0:
            return True, 'index in [%d,%d] < len %d' % (ir[0], ir[1], n)
        sp = source_place(body, m['index'])
        if sp is not None and n is not None:
            bs = dominating_upper_bounds(body, sp, pt)
            if any(b <= n for b in bs):
                return True, 'dominating guard `< %d` on the same place, no intervening write' % min(bs)
        return False, 'index range %s not provably < len %s' % (ir, n)
    if k == 'Overflow':
        op = m['op']
        a, b = R.of_operand(m['a']), R.of_operand(m['b'])
        tr = ty_range(m['a_ty'])
        if op in ('Shl', 'Shr'):
            width = {2**8 - 1: 8, 2**16 - 1: 16, 2**32 - 1: 32, 2**64 - 1: 64, 2**7 - 1: 8, 2**15 - 1: 16,
                     2**31 - 1: 32, 2**63 - 1: 64}.get(tr[1]) if tr else None
            if width and b and 0 <= b[0] and b[1] < width:
                return True, 'shift amount in [%d,%d] < %d' % (b[0], b[1], width)
            sp = source_place(body, m['b'])
            if sp is not None and width:
                bs = dominating_upper_bounds(body, sp, pt)
                if any(x <= width for x in bs):
                    return True, 'dominating guard `< %d` on the shift amount, no intervening write' % min(bs)
            return False, 'shift amount range %s not provably < %s bits' % (b, width)
        if op in ('Add', 'Sub', 'Mul') and a and b and tr:
            if op == 'Add':
                lo, hi = a[0] + b[0], a[1] + b[1]
            elif op == 'Sub':
                lo, hi = a[0] - b[1], a[1] - b[0]
            else:
                c = [a[0] * b[0], a[0] * b[1], a[1] * b[0], a[1] * b[1]]
                lo, hi = min(c), max(c)
            if tr[0] <= lo and hi <= tr[1]:
                return True, 'result in [%d,%d] fits %s' % (lo, hi, m['a_ty'])
            if op == 'Add' and m['b']['k'] == 'const':
                sp = source_place(body, m['a'])
                if sp is not None:
                    ok, why = counter_rule(body, sp, m['b']['int'], lps)
                    if ok:
                        return True, 'per-byte counter: %s (assumption: input shorter than %d bytes)' % (
                            why, tr[1] // max(1, m['b']['int']))
                    return False, 'unbounded accumulator: ' + why
        return False, 'cannot bound %s on %s' % (op, m['a_ty'])
    if k == 'OverflowNeg':
        a = R.of_operand(m['a'])
        # type minimum excluded?
        if a and a[0] > -2**63:
            return True, 'operand in [%d,%d] excludes the type minimum' % a
        return False, 'operand may be the type minimum'
    return False, 'assert kind %s not handled' % k


def rule_decoder_total(ctx, config='dev'):
    f = ctx.facts(config)
    r = RuleResult('DECODER-TOTAL', 'decode_mappings / decoded_mappings terminate without panicking on every string: every '
                                    'panic-capable MIR terminator in the decoder cone is discharged by a local range argument and '
                                    'the only loop consumes a slice iterator')
    r.floor = 12 if config == 'dev' else 8
    r.assumptions.append('mappings strings shorter than 2^32-1 bytes (per-byte counters: generated line, value position)')
    entry = [b for b in f.body_list if b.name == 'decode_mappings' and b.d.get('pub') and b.promoted is None]
    if len(entry) != 1:
        raise anchors.AnchorMissing('public fn decode_mappings: %d' % len(entry))
    cone = local_cone(f, entry[0])
    r.info('cone: %s' % sorted(cone))
    for root, members in sorted(cone.items()):
        for b in members:
            R = Ranges(b)
            lps = loops(b)
            # recursion
            for pt, t in b.calls():
                c = t.get('callee')
                if c is None:
                    r.site('%s: indirect call' % b.path, t['s'], 'violation')
                    r.violation('%s:indirect-call' % b.path, t['s'], b.path, 'indirect call in the decoder cone (cannot bound)')
                    continue
                tgt = c.get('resolved') or c['path']
                if f.body(tgt) is not None:
                    if tgt == root:
                        r.site('%s: recursion' % b.path, t['s'], 'violation')
                        r.violation('%s:recursion' % b.path, t['s'], b.path, 'recursive call in the decoder cone')
                    continue
                n = c['name']
                ok = n in NOPANIC_NAMES and n not in PANICKY_NAMES
                r.site('%s: std call `%s` cannot panic' % (b.path, c['path']), t['s'], 'ok' if ok else 'violation')
                if not ok:
                    r.violation('%s:call:%s' % (b.path, n), t['s'], b.path,
                                'call to `%s` in the decoder cone is not on the no-panic list (fail-closed)' % c['path'])
            kinds = {}
            for pt, t in b.points():
                if t['k'] != 'assert':
                    continue
                ok, why = discharge_assert(b, pt, t, R, lps)
                kind = t['msg']['kind'] + (':' + t['msg'].get('op', '') if t['msg'].get('op') else '')
                idx = kinds.get(kind, 0)
                kinds[kind] = idx + 1
                r.site('%s: %s #%d — %s' % (b.path, kind, idx, why), t['s'], 'ok' if ok else 'violation')
                if not ok:
                    r.violation('%s:%s' % (b.path, kind), t['s'], b.path,
                                'panic-capable terminator not discharged: %s (a crafted mappings string reaches it)' % why)
            # termination
            for h, srcs in lps.items():
                nexts = [pt for pt, t in b.calls() if t.get('callee') and t['callee']['name'] == 'next'
                         and t['args'] and 'slice::Iter' in t['arg_tys'][0]]
                ok = any(all(b.dominates(n, (s, 0)) for s in srcs) for n in nexts)
                r.site('%s: loop at bb%d consumes a slice iterator each iteration' % (b.path, h), b.span(), 'ok' if ok else 'violation')
                if not ok:
                    r.violation('%s:loop' % b.path, b.span(), b.path, 'loop does not provably consume input each iteration (may hang)')
    r.check_floor()
    return r


def rule_json_entry(ctx, config='dev'):
    f = ctx.facts(config)
    r = RuleResult('JSON-ENTRY', 'SourceMap::from_json / from_slice / from_reader add no panic site of their own: their crate-local '
                                 'cones contain no assert, unwrap/expect, indexing or unknown panicking call, and every error is propagated')
    r.floor = 6
    r.assumptions.append('simd-json and serde are total (return Err, never panic) — outside the crate')
    sm = anchors.adt_by_name(f, 'SourceMap')
    entries = [b for b in f.impl_bodies(sm['path']) if b.d.get('pub') and b.name in ('from_json', 'from_slice', 'from_reader')]
    if len(entries) != 3:
        raise anchors.AnchorMissing('SourceMap::from_json/from_slice/from_reader: %d' % len(entries))
    for e in entries:
        cone = local_cone(f, e)
        for root, members in sorted(cone.items()):
            for b in members:
                bad = []
                for pt, t in b.points():
                    if t['k'] == 'assert':
                        bad.append((t['s'], 'assert %s' % t['msg']['kind']))
                    if t['k'] == 'call':
                        c = t.get('callee')
                        if c is None:
                            bad.append((t['s'], 'indirect call'))
                        elif f.body(c.get('resolved') or c['path']) is None:
                            if c['name'] in PANICKY_NAMES and c['name'] not in ('insert', 'remove', 'swap', 'borrow'):
                                bad.append((t['s'], 'call `%s`' % c['path']))
                # results must reach Try::branch or the return place
                for pt, t in b.calls():
                    c = t.get('callee')
                    if c and (b.local_ty(t['dest']['l']) or '').startswith('std::result::Result<') and not t['dest']['pr']:
                        used = False
                        l = t['dest']['l']
                        if l == 0:
                            used = True
                        for pt2, t2 in b.calls():
                            if any(a['k'] in ('move', 'copy') and a['p']['l'] == l for a in t2['args']):
                                if t2['callee'] and t2['callee']['name'] in ('branch', 'map_err', 'map', 'and_then', 'from_residual'):
                                    used = True
                        for pt2, s2 in b.points():
                            if s2['k'] == 'assign' and s2['r']['k'] == 'use' and s2['r']['o']['k'] in ('move', 'copy') and \
                                    s2['r']['o']['p']['l'] == l and s2['p']['l'] == 0:
                                used = True
                        if not used:
                            bad.append((t['s'], 'Result of `%s` not propagated' % c['path']))
                ok = not bad
                r.site('%s -> %s: no panic site, errors propagated' % (e.name, b.path), b.span(), 'ok' if ok else 'violation')
                for site, why in bad:
                    r.violation('%s:%s' % (b.path, why), site, b.path, 'JSON entry cone contains a panic site / dropped error: ' + why)
    r.check_floor()
    return r


# ------------------------------------------------------------------------------------------------------------------------------
# LOOKUP-UNWRAP: a table lookup keyed by what a child's map says is not unwrapped blindly

_LOOKUP_PASS = ('cloned', 'copied', 'as_ref', 'as_deref', 'map', 'deref', 'borrow', 'borrow_mut', 'clone', 'as_mut')


def rule_lookup_unwrap(ctx, config='dev'):
    """`table.get(key).unwrap()` in a composite's callbacks: the key comes from a child's (possibly wild) map"""
    from .streams import composites
    from ..ir import walk, resolve_closure_params
    f = ctx.facts(config)
    r = RuleResult('LOOKUP-UNWRAP', 'inside the callbacks of a composite streamer, the result of a table lookup (`get` on a LinearMap / HashMap / '
                                    'slice) is unwrapped only where the entry is known to exist: the Option was given a value on the miss '
                                    'path (get-or-insert), or the unwrap is dominated by the test of the "announced, not yet translated" '
                                    'sentinel of the companion table (PREFILL stores it exactly for announced keys); a name or source index '
                                    'that a supplied map uses beyond its tables must not panic')
    comps, ol = composites(f)
    seen = set()
    for root, members, inner in comps:
        for m in members:
            if m.key in seen:
                continue
            seen.add(m.key)
            for pt, t in m.calls():
                c = t.get('callee')
                if not (c and c['name'] in ('unwrap', 'expect') and 'option::Option' in c['path'] and t['args']):
                    continue
                e = resolve_closure_params(f, m.expr_of_operand(t['args'][0]))
                # peel content-free adaptors; a choice (phi) with a `Some(..)` alternative is the get-or-insert idiom
                x = e
                filled = False
                while True:
                    if x and x[0] in ('ref', 'deref', 'cast'):
                        x = x[1]
                    elif x and x[0] == 'call' and x[1].rsplit('::', 1)[-1] in _LOOKUP_PASS and x[2]:
                        x = x[2][0]
                    elif x and x[0] == 'phi':
                        alts = list(x[1])
                        if any(a and a[0] == 'agg' and (a[3] == 'Some' or (a[2] or '').endswith('Option')) for a in alts):
                            filled = True
                        gets = [a for a in alts if any(isinstance(y, tuple) and y and y[0] == 'call' and y[1].endswith('::get') for y in walk(a))]
                        if len(gets) == 1:
                            x = gets[0]
                        else:
                            break
                    else:
                        break
                if not (x and x[0] == 'call' and x[1].endswith('::get')):
                    continue                                    # not a table lookup (chunk.unwrap() etc. are UNWRAP-TEXT's)
                table = x[1].rsplit('::', 2)[0].rsplit('::', 1)[-1] if '::' in x[1] else x[1]
                inst = '%s: unwrap of a `%s` lookup' % (m.path, x[1].split('<')[0].rsplit('::', 2)[-2] if '::' in x[1] else x[1])
                if filled:
                    r.site(inst + ': the Option is given a value on the miss path (get-or-insert)', t['s'], 'ok')
                    continue
                # dominated by the true edge of `== -2` (the sentinel PREFILL stores for announced keys)?
                ok = False
                dom = m.dom()
                for d in dom.get(pt[0], set()):
                    tt = m.term(d)
                    if tt['k'] != 'switch' or tt['d']['k'] not in ('copy', 'move'):
                        continue
                    ce = m.expr_of_operand(tt['d'])
                    if not (ce and ce[0] == 'bin' and ce[1] in ('Eq', 'Ne')):
                        continue
                    sent = [y[1] for y in (ce[2], ce[3]) if y and y[0] == 'const' and isinstance(y[1], int) and not isinstance(y[1], bool) and y[1] < -1]
                    if not sent:
                        continue
                    # the sentinel must be a *stored* value: a lookup that falls back to the sentinel itself (`unwrap_or(-2)`) yields it
                    # for keys that were never announced, and then proves nothing
                    other_side = [y for y in (ce[2], ce[3]) if not (y and y[0] == 'const')]
                    if any(isinstance(w, tuple) and w and w[0] == 'call' and w[1].rsplit('::', 1)[-1] in ('unwrap_or', 'map_or') and len(w[2]) >= 2
                           and any(a and a[0] == 'const' and a[1] == sent[0] for a in w[2][1:])
                           for y in other_side for w in walk(y)):
                        continue
                    zero_t = [y[1] for y in tt['targets'] if y[0] == 0]
                    other = [y for y in [tt['otherwise']] + [z[1] for z in tt['targets'] if z[0] != 0] if y not in zero_t]
                    good = other if ce[1] == 'Eq' else zero_t
                    if any((g == pt[0] or g in dom.get(pt[0], set())) and len(m.preds(g)) == 1 for g in good):
                        ok = True
                r.site(inst + (': under the test of the announced-key sentinel' if ok else ': nothing establishes that the key is in the table'),
                       t['s'], 'ok' if ok else 'violation')
                if not ok:
                    r.violation('%s:%s' % (root.path, x[1].split('<')[0].rsplit('::', 1)[-1] + ':' + c['name']), t['s'], m.path,
                                'the result of a table lookup is unwrapped although nothing establishes that the key was ever stored: the '
                                'key derives from an index a supplied source map uses (a name / source index beyond its tables is in the '
                                'documented input domain), so map() / stream_chunks panic on `None`')
    r.floor = 6
    r.check_floor()
    return r


# ---------------------------------------------------------------- CONTENT-UNWRAP (round 10)
def rule_content_unwrap(ctx, config='dev'):
    """the optional content a source announcement carries is unwrapped only where it is known to be there"""
    from .streams import composites, closure_kind
    f = ctx.facts(config)
    r = RuleResult('CONTENT-UNWRAP', 'inside a composite streamer, the content parameter of a source-announcement callback '
                                     '(`Option<Rope>`: a supplied map may list a source without sourcesContent) is unwrapped only on '
                                     'paths where it was assigned `Some(..)` or tested to be `Some`: forward may-be-None analysis of the '
                                     'callback body')
    comps, ol = composites(f)
    seen = set()
    for root, members, inner in comps:
        for m in members:
            if m.key in seen or m.d['kind'] != 'Closure' or closure_kind(m) != 'source':
                continue
            seen.add(m.key)
            P = m.arg_count          # the last parameter: the content
            if 'option::Option' not in m.local_ty(P):
                continue
            # locals that hold (a move of) the parameter
            def holds(o, depth=0):
                if o['k'] not in ('copy', 'move') or o['p']['pr'] or depth > 3:
                    return False
                if o['p']['l'] == P:
                    return True
                ds = m.whole_defs(o['p']['l'])       # an unnamed temporary the parameter was moved into
                return (not m.local_name(o['p']['l']) and len(ds) == 1 and ds[0][1] == 'assign' and ds[0][2]['r']['k'] == 'use'
                        and holds(ds[0][2]['r']['o'], depth + 1))
            n = len(m.blocks)
            MAYBE, SOME = 1, 0
            inn = {0: MAYBE}
            edge_some = {}          # (from, to) -> SOME established on this edge
            work = [0]
            out_state = {}
            def transfer(bb, st):
                for s in m.stmts(bb):
                    if s['k'] == 'assign' and s['p']['l'] == P and not s['p']['pr']:
                        rv = s['r']
                        st = SOME if (rv['k'] == 'agg' and (rv.get('variant') == 'Some')) else MAYBE
                t = m.term(bb)
                if t['k'] == 'call' and t['dest']['l'] == P and not t['dest']['pr']:
                    st = MAYBE
                return st
            while work:
                bb = work.pop()
                st = transfer(bb, inn[bb])
                out_state[bb] = st
                t = m.term(bb)
                succs = [x for x in m.succs(bb) if not m.is_cleanup(x)]
                some_targets = set()
                if t['k'] == 'switch' and t['d']['k'] in ('copy', 'move') and not t['d']['p']['pr']:
                    ds = m.whole_defs(t['d']['p']['l'])
                    if len(ds) == 1 and ds[0][1] == 'assign' and ds[0][2]['r']['k'] == 'discr':
                        dp = ds[0][2]['r']['p']
                        if dp['l'] == P and not [x for x in dp['pr'] if x != '*']:
                            some_targets = {x[1] for x in t['targets'] if x[0] == 1}
                            if not some_targets and [x for x in t['targets'] if x[0] == 0]:
                                some_targets = {t['otherwise']}
                for sx in succs:
                    ns = SOME if sx in some_targets else st
                    old = inn.get(sx)
                    new = ns if old is None else max(old, ns)
                    if old is None or new != old:
                        inn[sx] = new
                        work.append(sx)
            for pt, t in m.calls():
                c = t.get('callee')
                if not (c and c['name'] in ('unwrap', 'expect') and 'option::Option' in c['path'] and t['args'] and holds(t['args'][0])):
                    continue
                bb = pt[0]
                if bb not in inn:
                    continue
                st = inn[bb]
                for s in m.stmts(bb):
                    if s['k'] == 'assign' and s['p']['l'] == P and not s['p']['pr']:
                        rv = s['r']
                        st = SOME if (rv['k'] == 'agg' and rv.get('variant') == 'Some') else MAYBE
                ok = st == SOME
                r.site('%s: unwrap of the announced content %s' % (m.path, 'where it is known to be Some' if ok else 'where it may be None'),
                       t['s'], 'ok' if ok else 'violation')
                if not ok:
                    r.violation('%s:content:%s' % (root.path, c['name']), t['s'], m.path,
                                'the content a source announcement carries is unwrapped on a path where nothing made it `Some`: a supplied '
                                'map that lists the source without sourcesContent (and no original source given) makes stream_chunks / '
                                'map() panic on `None`')
    if not r.sites:
        r.info('no unwrap of an announced content inside a composite streamer')
    return r
