"""Property -> rules.  A property is only listed with the rules that exist (DESIGN §8)."""
import importlib

# (module, function[, configs]) ; configs: which build configurations the rule is evaluated on in the thorough tier
PROPERTY_RULES = {}


def reg(prop, module, fn, thorough_configs=('dev',)):
    PROPERTY_RULES.setdefault(prop, []).append((module, fn, thorough_configs))


def load(module, fn):
    m = importlib.import_module('rsv.rules.' + module)
    return getattr(m, fn)


# ---- C05
for fn in ('rule_reset', 'rule_fresh', 'rule_ordered_read', 'rule_sortkey'):
    reg('C05', 'replace_cache', fn)
reg('C05', 'witnesses', 'rule_w_mut')

# ---- C10
reg('C10', 'caches', 'rule_key')
reg('C10', 'caches', 'rule_writeonce')
reg('C10', 'caches', 'rule_memo')
# ---- C14
reg('C14', 'caches', 'rule_memo')
reg('C14', 'eqhash', 'rule_eqcover')
reg('C14', 'eqhash', 'rule_hash_in_eq')
reg('C14', 'eqhash', 'rule_clonecover')
# ---- C18
reg('C18', 'caches', 'rule_writeonce')
reg('C18', 'replace_cache', 'rule_publish_order')
reg('C18', 'replace_cache', 'rule_fresh')
reg('C18', 'witnesses', 'rule_w_sendsync')
reg('C18', 'witnesses', 'rule_w_mut')
# ---- C20
reg('C20', 'eqhash', 'rule_hashcover')
reg('C20', 'eqhash', 'rule_hashdet')
reg('C20', 'caches', 'rule_memo')

# ---- C12
reg('C12', 'codec', 'rule_tables')
reg('C12', 'codec', 'rule_alphabet')
# ---- C15
reg('C15', 'jsonmap', 'rule_json_names')
reg('C15', 'jsonmap', 'rule_json_flow')
# ---- C17
reg('C17', 'panics', 'rule_decoder_total', ('dev', 'release'))
reg('C17', 'panics', 'rule_json_entry', ('dev', 'release'))

# ---- C07
reg('C07', 'views', 'rule_deleg')
reg('C07', 'views', 'rule_ioerr')
# ---- C13
reg('C13', 'views', 'rule_deleg')
# ---- C10 (content views forwarded)
reg('C10', 'views', 'rule_deleg')

# ---- C19
reg('C19', 'unsafety', 'rule_unsafe_sites', ('dev', 'release'))
reg('C19', 'codec', 'rule_alphabet')
reg('C19', 'caches', 'rule_writeonce')
reg('C19', 'unsafety', 'rule_no_unsafe_sync')
reg('C19', 'witnesses', 'rule_w_unchecked')
reg('C19', 'witnesses', 'rule_w_mut')
# ---- C18 (census of unsafe impls)
reg('C18', 'unsafety', 'rule_no_unsafe_sync')

# ---- C01
reg('C01', 'text', 'rule_text')
reg('C01', 'text', 'rule_opts_lit')
reg('C01', 'witnesses', 'rule_w_opts')
# ---- C04
reg('C04', 'streams', 'rule_ident')
# ---- C06
reg('C06', 'streams', 'rule_idx')
reg('C06', 'streams', 'rule_advance')
# ---- C08
reg('C08', 'streams', 'rule_root')
reg('C08', 'streams', 'rule_eager')
reg('C08', 'text', 'rule_text')
# ---- C09
reg('C09', 'streams', 'rule_idx')
reg('C09', 'streams', 'rule_pair')
# ---- C11
reg('C11', 'streams', 'rule_pair')
reg('C11', 'streams', 'rule_eager')
reg('C11', 'streams', 'rule_idx')
reg('C11', 'codec', 'rule_alphabet')
# ---- C17 (chunk.unwrap sites)
reg('C17', 'text', 'rule_unwrap_text')

# ---- strengthening after the independent breakage round (DESIGN §11)
reg('C05', 'replace_cache', 'rule_clamp')
reg('C17', 'replace_cache', 'rule_clamp')
reg('C10', 'caches', 'rule_encode_all')
reg('C20', 'eqhash', 'rule_hashall')
reg('C14', 'eqhash', 'rule_hashall')
# the sorted accessor MEMO(iii) trusts is only pure if RESET + FRESH (+ PUBLISH-ORDER) hold; cache transparency needs KEY + WRITEONCE
reg('C14', 'replace_cache', 'rule_reset')
reg('C14', 'replace_cache', 'rule_fresh')
reg('C14', 'caches', 'rule_key')
reg('C14', 'caches', 'rule_writeonce')
reg('C20', 'replace_cache', 'rule_reset')
reg('C20', 'replace_cache', 'rule_fresh')
reg('C20', 'replace_cache', 'rule_publish_order')

# ---- strengthening after the independent breakage round 2
reg('C12', 'codec', 'rule_line_reset')
reg('C15', 'jsonmap', 'rule_json_skip')
reg('C15', 'jsonmap', 'rule_json_pure')
reg('C04', 'streams', 'rule_sticky')
reg('C13', 'streams', 'rule_sticky')
reg('C13', 'caches', 'rule_encode_all')
reg('C01', 'replace_cache', 'rule_sibling_splice')
reg('C05', 'replace_cache', 'rule_sibling_splice')
reg('C07', 'replace_cache', 'rule_sibling_splice')
reg('C08', 'streams', 'rule_first_mapped')
reg('C09', 'streams', 'rule_namecheck')

# ---- strengthening after the independent breakage round 3
reg('C15', 'views', 'rule_ioerr')            # SourceMap::to_writer is C15's writer
reg('C07', 'caches', 'rule_memo_reset')
reg('C10', 'caches', 'rule_memo_reset')
reg('C14', 'caches', 'rule_memo_reset')
reg('C12', 'streams', 'rule_enc_first_mapped')
reg('C18', 'streams', 'rule_lockscope')
reg('C15', 'jsonmap', 'rule_json_sibling')
reg('C14', 'eqhash', 'rule_eq_allpaths')
reg('C20', 'eqhash', 'rule_eq_allpaths')
reg('C19', 'unsafety', 'rule_range_validated', ('dev', 'release'))

# ---- round 4: abstract interpretation of index bounds; the closing-position defect of nested composites (F8)
reg('C17', 'bounds', 'rule_index_guarded', ('dev', 'release'))
reg('C04', 'streams', 'rule_forward_all')
reg('C06', 'streams', 'rule_forward_all')
reg('C13', 'streams', 'rule_forward_all')
reg('C06', 'streams', 'rule_sticky')         # "text a child attributes to nothing stays unattributed" needs the pending close
reg('C13', 'streams', 'rule_idx')            # wrappers change nothing: name / source indices are translated, not forwarded raw
reg('C20', 'eqhash', 'rule_hash_in_eq')      # a == that ignores what the hash feeds makes equal values hash differently
reg('C12', 'codec', 'rule_enc_dedup')
reg('C08', 'codec', 'rule_enc_dedup')        # a map that goes through an enclosing source's map() is re-encoded
reg('C10', 'codec', 'rule_enc_dedup')        # the cached map is produced by this encoder (the tee in stream_chunks)
reg('C09', 'streams', 'rule_ctor_verbatim')
reg('C17', 'bounds', 'rule_encoder_total', ('dev', 'release'))
reg('C12', 'bounds', 'rule_encoder_total')   # an encoder that panics on a decodable value does not round-trip it
reg('C12', 'codec', 'rule_enc_omit')
reg('C04', 'codec', 'rule_enc_omit')         # columns=false attribution is what the line-only encoder writes
reg('C17', 'bounds', 'rule_views_total', ('dev', 'release'))

# ---- round 5
reg('C11', 'streams', 'rule_tee_forward')
reg('C06', 'streams', 'rule_tee_forward')
reg('C10', 'streams', 'rule_tee_forward')
reg('C15', 'jsonmap', 'rule_json_entries_alike')
reg('C12', 'bounds', 'rule_vlq_terminated')
# ---- round 6
reg('C09', 'streams', 'rule_prefill')
reg('C11', 'streams', 'rule_prefill')
reg('C10', 'replace_cache', 'rule_sibling_splice')   # replay streams rope(): it must render to source()
reg('C04', 'replace_cache', 'rule_sibling_splice')
reg('C07', 'caches', 'rule_memo')                    # a memoised view has one meaning: all initialisers of a cell agree
reg('C12', 'bounds', 'rule_decoder_width')
reg('C17', 'bounds', 'rule_position_add', ('dev',))
# ---- round 7
reg('C09', 'streams', 'rule_combine_when_inner')
reg('C10', 'streams', 'rule_collector_sibling')
reg('C14', 'streams', 'rule_collector_sibling')   # repeating map() on an unchanged tree gives the same sources / sourcesContent
reg('C06', 'streams', 'rule_collector_sibling')
reg('C06', 'streams', 'rule_alloc_dedup')         # a child name announced twice keeps one index in the composite
reg('C09', 'streams', 'rule_alloc_dedup')
reg('C11', 'streams', 'rule_alloc_dedup')         # names / sources lists carry each key once
reg('C04', 'ropeinv', 'rule_prefix_sum')          # end columns of a child come from rope line lengths (get_generated_source_info)
reg('C10', 'ropeinv', 'rule_prefix_sum')          # the cached replay streams rope(): same text, size and generated end
reg('C11', 'ropeinv', 'rule_prefix_sum')          # segments before the end of source(): the end comes from rope offsets
reg('C19', 'ropeinv', 'rule_prefix_sum', ('dev', 'release'))   # byte_slice_unchecked picks pieces and cuts them by these offsets
reg('C06', 'streams', 'rule_prefix_direction')    # the column is advanced only where the recorded content equals the text
reg('C17', 'bounds', 'rule_clamp_order', ('dev', 'release'))
reg('C17', 'bounds', 'rule_slice_order', ('dev', 'release'))
reg('C01', 'bounds', 'rule_cursor_forward')       # a cursor that moves back re-emits text: chunks no longer reassemble to source()
# ---- round 9
reg('C04', 'ropeinv', 'rule_last_piece')          # get_generated_source_info asks rope.ends_with('\n'): the end position a child reports
reg('C10', 'ropeinv', 'rule_last_piece')          # the cached replay measures the cached rope
reg('C13', 'ropeinv', 'rule_last_piece')          # wrappers that replay a rope report the same end as the wrapped source
reg('C13', 'streams', 'rule_name_sibling')        # an empty insertion inside a named chunk must not change which characters carry the name
reg('C06', 'streams', 'rule_name_sibling')        # composites preserve the name a child attributes to its text
reg('C12', 'codec', 'rule_vlq_field_reset')       # redundant continuation digits are legal VLQ: a field ends with the digit state cleared
reg('C08', 'codec', 'rule_vlq_field_reset')       # the attached map is read by this decoder
reg('C17', 'panics', 'rule_lookup_unwrap', ('dev', 'release'))   # a name / source index beyond a supplied map's tables must not panic
reg('C08', 'streams', 'rule_active_cleared')      # a zero-width segment does not stay active past the segment that closes it
reg('C19', 'ropeinv', 'rule_unchecked_sibling', ('dev', 'release'))   # the unchecked slicer picks and cuts pieces like its checked sibling
# ---- round 10
reg('C04', 'offsets', 'rule_tagged_offset')       # a mapped segment starts on the output character its text starts on: the column correction of ReplaceSource
reg('C11', 'offsets', 'rule_tagged_offset')       # segments in increasing generated position before the end of source(): a stale correction moves columns backwards / past the end
reg('C06', 'ropeinv', 'rule_prefix_exhaust')      # the column of a cut chunk is advanced where the recorded content equals the text, however the text is divided into rope pieces
reg('C17', 'panics', 'rule_content_unwrap', ('dev', 'release'))   # a source announced without content (no sourcesContent, no original source) must not panic
reg('C14', 'caches', 'rule_fill_agree')           # map() of an unchanged value answers the same whichever call filled the cache
reg('C20', 'eqhash', 'rule_hash_framed')          # trees that differ in text must not feed the hasher the identical call sequence
reg('C07', 'ropeinv', 'rule_prefix_sum')          # rope() renders to source(): ReplaceSource::rope() slices its inner rope by these offsets
reg('C06', 'streams', 'rule_pair')                # a child-announced name keeps its name: the translation table is filled for every announced index
reg('C11', 'bounds', 'rule_vlq_terminated')       # a field whose last digit carries the continuation bit swallows the next one: the string no longer decodes into 1/4/5-field segments
