//! Minimal JSON value + writer (the driver has zero cargo dependencies).
use std::fmt::Write;

#[derive(Clone, Debug)]
pub enum J {
    Null,
    Bool(bool),
    Int(i128),
    Str(String),
    Arr(Vec<J>),
    Obj(Vec<(String, J)>),
}

impl J {
    pub fn s<S: Into<String>>(s: S) -> J {
        J::Str(s.into())
    }
    pub fn obj() -> Obj {
        Obj(Vec::new())
    }
    pub fn write(&self, out: &mut String) {
        match self {
            J::Null => out.push_str("null"),
            J::Bool(b) => out.push_str(if *b { "true" } else { "false" }),
            J::Int(i) => {
                let _ = write!(out, "{}", i);
            }
            J::Str(s) => esc(s, out),
            J::Arr(v) => {
                out.push('[');
                for (i, x) in v.iter().enumerate() {
                    if i > 0 {
                        out.push(',');
                    }
                    x.write(out);
                }
                out.push(']');
            }
            J::Obj(v) => {
                out.push('{');
                for (i, (k, x)) in v.iter().enumerate() {
                    if i > 0 {
                        out.push(',');
                    }
                    esc(k, out);
                    out.push(':');
                    x.write(out);
                }
                out.push('}');
            }
        }
    }
}

pub struct Obj(Vec<(String, J)>);
impl Obj {
    pub fn f<S: Into<String>>(mut self, k: S, v: J) -> Self {
        self.0.push((k.into(), v));
        self
    }
    pub fn fs<S: Into<String>, T: Into<String>>(self, k: S, v: T) -> Self {
        self.f(k, J::Str(v.into()))
    }
    pub fn fi<S: Into<String>>(self, k: S, v: i128) -> Self {
        self.f(k, J::Int(v))
    }
    pub fn fb<S: Into<String>>(self, k: S, v: bool) -> Self {
        self.f(k, J::Bool(v))
    }
    pub fn fo<S: Into<String>>(self, k: S, v: Option<J>) -> Self {
        self.f(k, v.unwrap_or(J::Null))
    }
    pub fn done(self) -> J {
        J::Obj(self.0)
    }
}

fn esc(s: &str, out: &mut String) {
    out.push('"');
    for c in s.chars() {
        match c {
            '"' => out.push_str("\\\""),
            '\\' => out.push_str("\\\\"),
            '\n' => out.push_str("\\n"),
            '\r' => out.push_str("\\r"),
            '\t' => out.push_str("\\t"),
            c if (c as u32) < 0x20 => {
                let _ = write!(out, "\\u{:04x}", c as u32);
            }
            c => out.push(c),
        }
    }
    out.push('"');
}
