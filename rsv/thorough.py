"""thorough tier = quick + (i) extra build configurations for rules that depend on them,
(ii) the canary self-test: every canary patch of the property is applied to a scratch copy of
/repo (outside /repo and /verif, removed with its build output), analysed with the same rules,
and must produce the expected finding.  A canary that no longer applies (because /repo was
edited) is skipped and counted; one that applies but does not fire makes the check exit 2
("checker blind") — never a VIOLATION, since it says nothing about /repo.
"""
import json
import os
import shutil
import subprocess
import tempfile

from . import build, registry
from .core import Ctx

VERIF = build.VERIF


class Blind(build.InfraError):
    pass


def load_canaries():
    p = os.path.join(VERIF, 'canaries', 'index.json')
    with open(p) as f:
        return json.load(f)


def scratch_copy(repo, tag):
    base = os.path.join(tempfile.gettempdir(), 'rsv-scratch-%s' % tag)
    shutil.rmtree(base, ignore_errors=True)
    os.makedirs(base)
    dst = os.path.join(base, 'repo')
    os.makedirs(dst)
    for name in os.listdir(repo):
        if name in ('target', '.git', 'benches'):
            continue
        s = os.path.join(repo, name)
        if os.path.isdir(s):
            shutil.copytree(s, os.path.join(dst, name))
        else:
            shutil.copy2(s, os.path.join(dst, name))
    # benches are referenced by Cargo.toml ([[bench]]): copy the rust file only, not the fixtures
    os.makedirs(os.path.join(dst, 'benches'), exist_ok=True)
    for name in os.listdir(os.path.join(repo, 'benches')):
        s = os.path.join(repo, 'benches', name)
        if os.path.isfile(s):
            shutil.copy2(s, os.path.join(dst, 'benches', name))
    return base, dst


def apply_patch(dst, patch):
    r = subprocess.run(['patch', '-p1', '--no-backup-if-mismatch', '-s', '-f', '-i', patch], cwd=dst,
                       stdout=subprocess.PIPE, stderr=subprocess.STDOUT, text=True)
    return r.returncode == 0, r.stdout


def run_canary(prop, can, repo):
    """returns (status, detail): fired | skipped | blind | broken"""
    from .check import run_rules
    patch = os.path.join(VERIF, 'canaries', can['file'])
    base, dst = scratch_copy(repo, '%s' % prop)
    try:
        ok, out = apply_patch(dst, patch)
        if not ok:
            return 'skipped', 'patch no longer applies'
        ctx = Ctx(dst)
        try:
            try:
                results = run_rules(prop, ctx, 'quick')
            except build.InfraError as e:
                return 'broken', 'canary does not build: %s' % str(e)[-300:]
            keys = [f.key for res in results for f in res.findings]
        finally:
            ctx.close()
        want = can['expect']
        hit = [k for k in keys if all(w in k for w in ([want] if isinstance(want, str) else want))]
        if hit:
            return 'fired', hit[0]
        return 'blind', 'expected a finding matching %r, got %r' % (want, keys)
    finally:
        shutil.rmtree(base, ignore_errors=True)


def run(prop, ctx, results):
    extra = {}
    # (i) extra configurations
    cfg_results = {}
    for module, fn, cfgs in registry.PROPERTY_RULES.get(prop, []):
        for cfg in cfgs:
            if cfg == 'dev':
                continue
            rule = registry.load(module, fn)
            res = rule(ctx, config=cfg)
            res.rule = res.rule + '@' + cfg
            for s in res.sites:
                s['rule'] = res.rule
            for f in res.findings:
                f.key = f.key.replace(res.rule.split('@')[0] + ':', res.rule + ':', 1)
                f.rule = res.rule
            results.append(res)
            cfg_results.setdefault(cfg, []).append(res.rule)
    if cfg_results:
        extra['extra_configurations'] = cfg_results
    # (ii) canaries
    cans = [c for c in load_canaries() if prop in c['properties']]
    report = []
    blind = []
    for c in cans:
        status, detail = run_canary(prop, c, ctx.repo)
        report.append({'canary': c['name'], 'status': status, 'detail': detail, 'rule': c.get('rule')})
        if status in ('blind', 'broken'):
            blind.append((c['name'], status, detail))
    extra['canaries'] = report
    extra['canaries_fired'] = sum(1 for x in report if x['status'] == 'fired')
    extra['canaries_skipped'] = sum(1 for x in report if x['status'] == 'skipped')
    if blind:
        raise Blind('canary self-test failed — the checker is blind or a canary is broken: %r' % blind)
    # (iii) negative controls: behaviour-preserving refactorings (benign/*.diff) must stay silent.  Each thorough run takes the
    # quarter of the corpus assigned to this property (the whole corpus is run by tools/run_benign.py).
    bd = os.path.join(VERIF, 'benign')
    names = sorted(x for x in os.listdir(bd) if x.endswith('.diff')) if os.path.isdir(bd) else []
    mine = [x for i, x in enumerate(names) if i % 4 == int(prop[1:]) % 4]
    neg = []
    loud = []
    from .check import run_rules
    for x in mine:
        base, dst = scratch_copy(ctx.repo, '%s-neg' % prop)
        try:
            ok, out = apply_patch(dst, os.path.join(bd, x))
            if not ok:
                neg.append({'refactoring': x, 'status': 'skipped'})
                continue
            c2 = Ctx(dst)
            try:
                try:
                    res = run_rules(prop, c2, 'quick')
                except build.InfraError as e:
                    neg.append({'refactoring': x, 'status': 'broken'})
                    continue
                # an open known finding of the unchanged tree is present in every copy of it: suppressed by exact (property, key), as
                # bin/check does - the negative control asks whether the refactoring ADDS an alarm
                from .check import load_known
                _known = {(k['property'], k['key']) for k in load_known().get('open', [])}
                keys = [f.key for rr in res for f in rr.findings if (prop, f.key) not in _known]
            finally:
                c2.close()
            neg.append({'refactoring': x, 'status': 'silent' if not keys else 'ALARM', 'keys': keys[:4]})
            if keys:
                loud.append((x, keys[:3]))
        finally:
            shutil.rmtree(base, ignore_errors=True)
    extra['negative_controls'] = neg
    extra['negative_controls_silent'] = sum(1 for x in neg if x['status'] == 'silent')
    if loud:
        raise Blind('negative control failed — the checker raises an alarm on a behaviour-preserving refactoring: %r' % loud)
    return extra
