"""IR helpers over the fact base emitted by rsv-driver.

Everything here is *static*: it walks the compiler's MIR for /repo's current source.
No library code is executed.
"""
import json
from functools import lru_cache

PASS_THROUGH_NAMES = {
    # callee name -> treated as returning (a view of) its first argument
    'deref', 'deref_mut', 'as_ref', 'as_mut', 'borrow', 'borrow_mut', 'as_deref',
    'as_str', 'as_bytes', 'as_slice', 'as_mut_slice', 'into', 'from', 'clone', 'to_owned',
    'unwrap', 'expect', 'unwrap_or_default', 'copied', 'cloned', 'into_iter', 'iter', 'iter_mut',
    'lock', 'get_mut', 'by_ref', 'as_ptr', 'branch', 'from_residual', 'from_output',
}


def place_str(p):
    s = '_%d' % p['l']
    for x in p['pr']:
        if x == '*':
            s = '(*%s)' % s
        elif 'f' in x:
            s += '.' + str(x.get('n', x['f']))
        elif 'i' in x:
            s += '[_%d]' % x['i']
        elif 'ci' in x:
            s += '[%s%d]' % ('-' if x.get('from_end') else '', x['ci'])
        elif 'dc' in x:
            s += ' as ' + x['dc']
        else:
            s += '.?'
    return s


def op_str(o):
    if o['k'] in ('copy', 'move'):
        return o['k'] + ' ' + place_str(o['p'])
    if o['k'] == 'const':
        for k in ('int', 'bool', 'str'):
            if k in o:
                return 'const %r' % (o[k],)
        if 'fn' in o:
            return 'fn ' + o['fn']['path']
        if 'closure' in o:
            return 'closure ' + o['closure']
        return 'const<%s>' % o['ty']
    return o['k']


class Point(tuple):
    """(bb, idx): idx == len(stmts) denotes the terminator."""
    __slots__ = ()


class Body:
    def __init__(self, d, facts):
        self.d = d
        self.facts = facts
        self.path = d['path']
        self.promoted = d.get('promoted')
        self.key = self.path if self.promoted is None else '%s#promoted[%d]' % (self.path, self.promoted)
        self.blocks = d['blocks']
        self.locals = d['locals']
        self.arg_count = d['arg_count']
        self.name = d.get('name', '')
        self._succ = None
        self._pred = None
        self._dom = None
        self._pdom = None
        self._defs = None
        self._uses = None

    # ---------------- CFG
    def span(self):
        return self.d['span']

    def term(self, bb):
        return self.blocks[bb]['term']

    def stmts(self, bb):
        return self.blocks[bb]['stmts']

    def is_cleanup(self, bb):
        return self.blocks[bb]['cleanup']

    def succs(self, bb):
        """normal (non-unwind) successors"""
        if self._succ is None:
            self._succ = []
            for b in self.blocks:
                t = b['term']
                k = t['k']
                s = []
                if k == 'goto':
                    s = [t['t']]
                elif k == 'switch':
                    s = [x[1] for x in t['targets']] + [t['otherwise']]
                elif k in ('drop', 'call', 'assert'):
                    if t.get('t') is not None:
                        s = [t['t']]
                self._succ.append(list(dict.fromkeys(s)))
        return self._succ[bb]

    def preds(self, bb):
        if self._pred is None:
            self._pred = [[] for _ in self.blocks]
            for i in range(len(self.blocks)):
                for s in self.succs(i):
                    self._pred[s].append(i)
        return self._pred[bb]

    def reachable(self, start=0, blocked=()):
        seen = set()
        st = [start]
        while st:
            b = st.pop()
            if b in seen or b in blocked:
                continue
            seen.add(b)
            st.extend(self.succs(b))
        return seen

    def return_blocks(self):
        return [i for i, b in enumerate(self.blocks) if b['term']['k'] == 'return']

    def _dominators(self, n, entry, succ, pred):
        # iterative set-based dominators (graphs are small)
        order = []
        seen = set()

        def dfs(u):
            stack = [(u, iter(succ(u)))]
            seen.add(u)
            while stack:
                node, it = stack[-1]
                adv = False
                for v in it:
                    if v not in seen:
                        seen.add(v)
                        stack.append((v, iter(succ(v))))
                        adv = True
                        break
                if not adv:
                    order.append(node)
                    stack.pop()
        dfs(entry)
        rpo = order[::-1]
        dom = {u: None for u in rpo}
        dom[entry] = {entry}
        changed = True
        while changed:
            changed = False
            for u in rpo:
                if u == entry:
                    continue
                ps = [dom[p] for p in pred(u) if p in dom and dom[p] is not None]
                if not ps:
                    continue
                new = set.intersection(*ps) | {u}
                if new != dom[u]:
                    dom[u] = new
                    changed = True
        return dom

    def dom(self):
        """dom()[b] = set of blocks dominating b (normal edges only); unreachable blocks absent"""
        if self._dom is None:
            self._dom = self._dominators(len(self.blocks), 0, self.succs, self.preds)
        return self._dom

    def pdom(self):
        """post-dominators w.r.t. normal return: pdom()[b] = set of blocks every path b->return passes."""
        if self._pdom is None:
            EXIT = -1
            rets = self.return_blocks()

            def succ(u):
                if u == EXIT:
                    return rets
                return self.preds(u)

            def pred(u):
                r = list(self.succs(u)) if u != EXIT else []
                if u in rets:
                    r = r + [EXIT]
                return r
            self._pdom = self._dominators(len(self.blocks) + 1, EXIT, succ, pred)
        return self._pdom

    def dominates(self, p1, p2):
        """point p1 dominates point p2 (both (bb, idx))"""
        (b1, i1), (b2, i2) = p1, p2
        if b1 == b2:
            return i1 <= i2
        d = self.dom().get(b2)
        return d is not None and b1 in d

    def postdominates(self, p1, p2):
        """every normal path from p2 to return passes p1"""
        (b1, i1), (b2, i2) = p1, p2
        if b1 == b2:
            return i1 >= i2
        d = self.pdom().get(b2)
        return d is not None and b1 in d

    def can_reach(self, b1, b2, blocked=()):
        return b2 in self.reachable(b1, blocked)

    # ---------------- defs / uses
    def points(self):
        for bi, b in enumerate(self.blocks):
            for si, s in enumerate(b['stmts']):
                yield (bi, si), s
            yield (bi, len(b['stmts'])), b['term']

    def defs(self, local):
        """list of (point, kind, payload): kind 'assign' (payload stmt) | 'call' (payload term) | 'arg'"""
        if self._defs is None:
            self._defs = {}
            for pt, s in self.points():
                if s['k'] == 'assign':
                    self._defs.setdefault(s['p']['l'], []).append((pt, 'assign', s))
                elif s['k'] == 'call':
                    self._defs.setdefault(s['dest']['l'], []).append((pt, 'call', s))
        r = list(self._defs.get(local, []))
        return r

    def is_arg(self, local):
        return 1 <= local <= self.arg_count

    def whole_defs(self, local):
        return [(pt, k, s) for (pt, k, s) in self.defs(local)
                if not (s['p'] if k == 'assign' else s['dest'])['pr']]

    def calls(self):
        for bi, b in enumerate(self.blocks):
            t = b['term']
            if t['k'] == 'call':
                yield (bi, len(b['stmts'])), t

    def local_ty(self, l):
        return self.locals[l]['ty']

    def local_name(self, l):
        return self.locals[l].get('name')

    # ---------------- expression trees
    def expr_of_operand(self, o, depth=0, stack=()):
        if o['k'] in ('copy', 'move'):
            return self.expr_of_place(o['p'], depth, stack)
        if o['k'] == 'const':
            if 'fn' in o:
                return ('fn', o['fn']['path'])
            if 'closure' in o:
                return ('closure', o['closure'])
            for k in ('int', 'bool', 'str', 'bytes'):
                if k in o:
                    return ('const', o[k] if k != 'bytes' else tuple(o[k]))
            if 'promoted' in o:
                return ('promoted', o['promoted'])
            if 'item' in o:
                return ('item', o['item'])
            return ('const', None)
        return ('other', o['k'])

    def expr_of_place(self, p, depth=0, stack=()):
        e = self.expr_of_local(p['l'], depth, stack)
        for x in p['pr']:
            if x == '*':
                e = ('deref', e)
            elif 'f' in x:
                cap = None
                if x.get('upvar') and self.facts is not None and depth < 30:
                    cap = self.facts.capture_expr(x.get('o'), x['f'])
                if cap is not None:
                    e = ('upvar', cap, x.get('n', str(x['f'])), x.get('o'))
                elif e[0] == 'agg' and e[1] == 'tuple' and x['f'] < len(e[5]):
                    e = e[5][x['f']]          # projection of a tuple literal: the operand itself
                elif e[0] == 'agg' and e[1] == 'adt' and x.get('n') in e[4] and len(e[4]) == len(e[5]) and \
                        not (e[2] or '').endswith('option::Option'):
                    e = e[5][e[4].index(x['n'])]
                else:
                    e = ('field', e, x.get('n', str(x['f'])), x.get('o'))
            elif 'dc' in x:
                e = ('downcast', e, x['dc'])
            elif 'i' in x:
                e = ('index', e, self.expr_of_local(x['i'], depth + 1, stack))
            elif 'ci' in x:
                e = ('cindex', e, x['ci'], x.get('from_end', False))
            else:
                e = ('proj', e, json.dumps(x))
        return e

    def expr_of_local(self, l, depth=0, stack=()):
        """Flow-insensitive expression for a local: ('phi', [alts]) when several whole defs.
        Partial defs (field writes) are ignored here; use field_writes()."""
        if self.is_arg(l):
            ds = self.whole_defs(l)
            if not ds:
                return ('arg', l, self.local_name(l), self.key)
        if l in stack or depth > 40:
            return ('cycle', l)
        ds = self.whole_defs(l)
        if not ds:
            return ('undef', l)
        alts = []
        for pt, k, s in ds:
            alts.append(self._expr_of_def(l, pt, k, s, depth + 1, stack + (l,)))
        if self.is_arg(l):
            alts.append(('arg', l, self.local_name(l), self.key))
        if len(alts) == 1:
            return alts[0]
        return ('phi', tuple(alts))

    def _expr_of_def(self, l, pt, k, s, depth, stack):
        if k == 'call':
            args = tuple(self.expr_of_operand(a, depth, stack) for a in s['args'])
            c = s.get('callee')
            if c is None:
                f = self.expr_of_operand(s['f'], depth, stack) if 'f' in s else ('other', 'f')
                return ('icall', f, args, pt)
            return ('call', c['path'], args, pt, c.get('resolved') or c['path'])
        r = s['r']
        rk = r['k']
        if rk == 'use':
            return self.expr_of_operand(r['o'], depth, stack)
        if rk == 'ref':
            return ('ref', self.expr_of_place(r['p'], depth, stack), r['m'])
        if rk == 'rawptr':
            return ('ref', self.expr_of_place(r['p'], depth, stack), 'raw')
        if rk == 'copyderef':
            return self.expr_of_place(r['p'], depth, stack)
        if rk == 'cast':
            return ('cast', self.expr_of_operand(r['o'], depth, stack), r['ck'], r['ty'], r.get('from_ty'))
        if rk == 'bin':
            return ('bin', r['op'], self.expr_of_operand(r['a'], depth, stack),
                    self.expr_of_operand(r['b'], depth, stack), pt)
        if rk == 'un':
            return ('un', r['op'], self.expr_of_operand(r['o'], depth, stack))
        if rk == 'discr':
            return ('discr', self.expr_of_place(r['p'], depth, stack))
        if rk == 'agg':
            ops = tuple(self.expr_of_operand(a, depth, stack) for a in r['ops'])
            return ('agg', r['ak'], r.get('path'), r.get('variant'), tuple(r.get('fields') or ()), ops, pt)
        if rk == 'repeat':
            return ('repeat', self.expr_of_operand(r['o'], depth, stack))
        return ('other', rk)


    # ---------------- places
    def places(self):
        """every place mentioned in the body with its role:
        write | mutref | ref | rawref | move | copy | discr | drop | index"""
        def ops_of_rvalue(r):
            k = r['k']
            if k in ('use', 'cast', 'un', 'repeat'):
                return [r['o']]
            if k == 'bin':
                return [r['a'], r['b']]
            if k == 'agg':
                return list(r['ops'])
            return []
        for pt, s in self.points():
            k = s['k']
            if k == 'assign':
                yield pt, 'write', s['p'], s
                r = s['r']
                if r['k'] == 'ref':
                    yield pt, {'mut': 'mutref', 'shared': 'ref', 'fake': 'ref'}[r['m']], r['p'], s
                elif r['k'] == 'rawptr':
                    yield pt, 'rawref', r['p'], s
                elif r['k'] in ('discr', 'copyderef'):
                    yield pt, 'discr' if r['k'] == 'discr' else 'copy', r['p'], s
                for o in ops_of_rvalue(r):
                    if o['k'] in ('copy', 'move'):
                        yield pt, o['k'], o['p'], s
            elif k == 'setdiscr':
                yield pt, 'write', s['p'], s
            elif k == 'call':
                yield pt, 'write', s['dest'], s
                for o in s['args']:
                    if o['k'] in ('copy', 'move'):
                        yield pt, o['k'], o['p'], s
                if 'f' in s and s['f']['k'] in ('copy', 'move'):
                    yield pt, s['f']['k'], s['f']['p'], s
            elif k == 'drop':
                yield pt, 'drop', s['p'], s
            elif k == 'switch':
                if s['d']['k'] in ('copy', 'move'):
                    yield pt, s['d']['k'], s['d']['p'], s
            elif k == 'assert':
                for o in [s['c']] + [v for kk, v in s['msg'].items() if isinstance(v, dict) and 'k' in v]:
                    if o['k'] in ('copy', 'move'):
                        yield pt, o['k'], o['p'], s

    def field_accesses(self, adt, field):
        """accesses whose place goes through field `field` of `adt` (at any projection depth).
        yields (pt, role, place, node, is_last) — is_last: the field is the final projection."""
        for pt, role, pl, node in self.places():
            pr = pl['pr']
            for i, x in enumerate(pr):
                if isinstance(x, dict) and x.get('o') == adt and x.get('n') == field:
                    rest = pr[i + 1:]
                    yield pt, role, pl, node, rest
                    break

    def call_callee(self, t):
        return t.get('callee')


def callee_matches(c, name=None, path_contains=None, trait=None, impl_adt=None, crate=None):
    if c is None:
        return False
    if name is not None and c.get('name') != name:
        return False
    if path_contains is not None and path_contains not in c.get('path', ''):
        return False
    if trait is not None and c.get('trait') != trait and c.get('impl_trait') != trait:
        return False
    if impl_adt is not None and c.get('impl_adt') != impl_adt:
        return False
    if crate is not None and c.get('crate') != crate:
        return False
    return True


# ---------------- expression utilities

def strip(e, through_calls=PASS_THROUGH_NAMES):
    """Remove refs/derefs/casts and pass-through calls; returns the set of root expressions."""
    out = []
    seen = set()

    def go(e, d=0):
        if d > 60:
            out.append(e)
            return
        k = e[0]
        if k in ('ref', 'deref', 'upvar', 'payload'):
            go(e[1], d + 1)
        elif k == 'cast':
            go(e[1], d + 1)
        elif k == 'phi':
            for a in e[1]:
                go(a, d + 1)
        elif k == 'call' and through_calls and e[1].rsplit('::', 1)[-1] in through_calls and e[2]:
            go(e[2][0], d + 1)
        elif k == 'downcast':
            go(e[1], d + 1)
        else:
            if e not in seen:
                seen.add(e)
                out.append(e)
    go(e)
    return out


def access_paths(e, through_calls=PASS_THROUGH_NAMES, through_fields=True):
    """All (root, (field, field, ...)) access paths an expression may denote, looking through
    refs, derefs, casts, variant downcasts and pass-through calls.  root is ('arg', n, name),
    ('call', path, args, pt), ('agg', ...), ('const', v) ..."""
    res = []

    def go(e, fields, d=0):
        if d > 80:
            res.append((e, tuple(fields)))
            return
        k = e[0]
        if k in ('ref', 'deref', 'cast', 'downcast', 'upvar', 'payload'):
            go(e[1], fields, d + 1)
        elif k == 'phi':
            for a in e[1]:
                go(a, fields, d + 1)
        elif k == 'field' and through_fields:
            go(e[1], [e[2]] + fields, d + 1)
        elif k in ('index', 'cindex'):
            go(e[1], ['[]'] + fields, d + 1)
        elif k == 'call' and through_calls and e[1].rsplit('::', 1)[-1] in through_calls and e[2]:
            go(e[2][0], fields, d + 1)
        else:
            res.append((e, tuple(fields)))
    go(e, [])
    return res


def walk(e):
    """pre-order walk of an expression tree"""
    yield e
    k = e[0]
    if k in ('ref', 'deref', 'cast', 'downcast', 'field', 'discr', 'repeat', 'upvar', 'payload'):
        yield from walk(e[1])
    elif k == 'un':
        yield from walk(e[2])
    elif k in ('index',):
        yield from walk(e[1])
        yield from walk(e[2])
    elif k == 'cindex':
        yield from walk(e[1])
    elif k == 'phi':
        for a in e[1]:
            yield from walk(a)
    elif k == 'call':
        for a in e[2]:
            yield from walk(a)
    elif k == 'icall':
        yield from walk(e[1])
        for a in e[2]:
            yield from walk(a)
    elif k == 'bin':
        yield from walk(e[2])
        yield from walk(e[3])
    elif k == 'agg':
        for a in e[5]:
            yield from walk(a)


def value_walk(e):
    """like walk(), but follows value flow only: for container reads (index projections, get/index calls) the key / index
    sub-expression is not visited"""
    yield e
    k = e[0]
    if k in ('ref', 'deref', 'cast', 'downcast', 'field', 'discr', 'repeat', 'upvar', 'payload'):
        yield from value_walk(e[1])
    elif k == 'un':
        yield from value_walk(e[2])
    elif k in ('index', 'cindex'):
        yield from value_walk(e[1])
    elif k == 'phi':
        for a in e[1]:
            yield from value_walk(a)
    elif k == 'call':
        n = e[1].rsplit('::', 1)[-1]
        args = e[2][:1] if n in ('get', 'get_mut', 'index', 'index_mut', 'get_unchecked') else e[2]
        for a in args:
            yield from value_walk(a)
    elif k == 'icall':
        for a in e[2]:
            yield from value_walk(a)
    elif k == 'bin':
        yield from value_walk(e[2])
        yield from value_walk(e[3])
    elif k == 'agg':
        for a in e[5]:
            yield from value_walk(a)


class Facts:
    def __init__(self, path):
        with open(path) as f:
            self.d = json.load(f)
        self.bodies = {}
        self._cap = {}
        self.body_list = []
        for b in self.d['bodies']:
            bo = Body(b, self)
            self.bodies[bo.key] = bo
            self.body_list.append(bo)
        self.adts = {a['path']: a for a in self.d['adts']}
        self.impls = self.d['impls']
        self.consts = {c['path']: c for c in self.d['consts']}
        self.unsafe_blocks = self.d['unsafe_blocks']
        self.traits = {t['path']: t for t in self.d.get('traits', [])}

    def capture_expr(self, closure_path, idx):
        """expression (in the parent's context) captured as upvar `idx` of `closure_path`"""
        key = (closure_path, idx)
        if key in self._cap:
            return self._cap[key]
        self._cap[key] = None  # cycle guard
        cb = self.bodies.get(closure_path)
        par = self.bodies.get(cb.d.get('parent')) if cb is not None else None
        res = None
        if par is not None:
            alts = []
            for pt, st in par.points():
                if st['k'] == 'assign' and st['r']['k'] == 'agg' and st['r'].get('ak') == 'closure' \
                        and st['r'].get('path') == closure_path and idx < len(st['r']['ops']):
                    alts.append(par.expr_of_operand(st['r']['ops'][idx], 1))
            if len(alts) == 1:
                res = alts[0]
            elif alts:
                res = ('phi', tuple(alts))
        self._cap[key] = res
        return res

    def meta(self):
        return {k: self.d[k] for k in ('nonce', 'crate', 'test', 'rustc', 'overflow_checks',
                                       'debug_assertions', 'ub_checks')}

    def body(self, key):
        return self.bodies.get(key)

    def find_bodies(self, pred):
        return [b for b in self.body_list if pred(b)]

    def closures_of(self, body, recursive=True):
        """closure bodies whose (transitive) parent is `body`"""
        out = []
        for b in self.body_list:
            if b.promoted is not None:
                continue
            par = b.d.get('parent')
            if par is None:
                continue
            if par == body.path or (recursive and b.d.get('root') == (body.d.get('root') or body.path)
                                    and self._is_descendant(b, body)):
                out.append(b)
        return out

    def _is_descendant(self, b, anc):
        p = b.d.get('parent')
        while p is not None:
            if p == anc.path:
                return True
            pb = self.bodies.get(p)
            p = pb.d.get('parent') if pb else None
        return False

    def impl_bodies(self, adt, trait=None, name=None):
        """bodies of methods of impls on `adt` (optionally for `trait`), excluding closures/promoteds"""
        r = []
        for b in self.body_list:
            if b.promoted is not None or b.d['kind'] == 'Closure':
                continue
            if b.d.get('impl_adt') != adt:
                continue
            if trait is not None and b.d.get('impl_trait') != trait:
                continue
            if trait is None and 'impl_trait' in b.d and name is None:
                pass
            if name is not None and b.name != name:
                continue
            r.append(b)
        return r

    def adt_fields(self, adt):
        a = self.adts[adt]
        return [f for v in a['variants'] for f in v['fields']]


# ---------------------------------------------------------------------------------- inlining of crate-local helpers

def substitute(e, key, actuals, depth=0):
    """replace ('arg', i, _, key) nodes of body `key` by actuals[i] (dict) throughout the tree"""
    if depth > 80 or not isinstance(e, tuple) or not e:
        return e
    if e[0] == 'arg' and len(e) > 3 and e[3] == key:
        return actuals.get(e[1], e)
    out = []
    changed = False
    for x in e:
        if isinstance(x, tuple) and x and isinstance(x[0], str):
            y = substitute(x, key, actuals, depth + 1)
        elif isinstance(x, tuple):
            y = tuple(substitute(z, key, actuals, depth + 1) if isinstance(z, tuple) else z for z in x)
        else:
            y = x
        changed = changed or (y is not x)
        out.append(y)
    return tuple(out) if changed else e


def call_target(facts, e):
    """(body, actuals) for a call node whose target is a crate-local function or a closure literal, else None"""
    if e[0] != 'call':
        return None
    name = e[1].rsplit('::', 1)[-1]
    tgt = facts.body(e[4]) if len(e) > 4 and e[4] else facts.body(e[1])
    if tgt is not None and tgt.d['kind'] != 'Closure':
        return tgt, {i + 1: a for i, a in enumerate(e[2])}
    if name in ('call', 'call_mut', 'call_once') and len(e[2]) == 2:
        cl = None
        if tgt is not None and tgt.d['kind'] == 'Closure':
            cl = tgt
        else:
            for x in strip(e[2][0], through_calls=set()):
                if x[0] == 'agg' and x[1] == 'closure':
                    cl = facts.body(x[2])
        if cl is None:
            return None
        actuals = {}
        tup = None
        for x in strip(e[2][1], through_calls=set()):
            if x[0] == 'agg' and x[1] == 'tuple':
                tup = x
        if tup is not None:
            for i, a in enumerate(tup[5]):
                actuals[i + 2] = a
        return cl, actuals
    return None


def inline(facts, e, depth=3, seen=(), keep=()):
    """expression with calls to crate-local functions / closures replaced by their (parameter-substituted) return expression,
    up to `depth` levels; recursion is cut; calls whose last path segment is in `keep` stay calls"""
    if depth <= 0 or not isinstance(e, tuple) or not e or not isinstance(e[0], str):
        return e
    if e[0] == 'call' and e[1].rsplit('::', 1)[-1] not in keep:
        ct = call_target(facts, e)
        if ct is not None and ct[0].key not in seen:
            body, actuals = ct
            actuals = {k: inline(facts, v, depth, seen, keep) for k, v in actuals.items()}
            ret = body.expr_of_local(0)
            sub = substitute(ret, body.key, actuals)
            return inline(facts, sub, depth - 1, seen + (body.key,), keep)
    out = []
    for x in e:
        if isinstance(x, tuple) and x and isinstance(x[0], str):
            out.append(inline(facts, x, depth, seen, keep))
        elif isinstance(x, tuple):
            out.append(tuple(inline(facts, z, depth, seen, keep) if isinstance(z, tuple) else z for z in x))
        else:
            out.append(x)
    res = tuple(out)
    # projection of a literal produced by inlining: the operand itself
    if res[0] == 'field' and isinstance(res[1], tuple) and res[1] and res[1][0] == 'agg':
        a = res[1]
        if a[1] == 'tuple' and str(res[2]).isdigit() and int(res[2]) < len(a[5]):
            return a[5][int(res[2])]
        if a[1] == 'adt' and res[2] in a[4] and len(a[4]) == len(a[5]) and not (a[2] or '').endswith('option::Option'):
            return a[5][a[4].index(res[2])]
    return res


ADAPTORS_PAYLOAD = {'map', 'and_then', 'filter', 'is_some_and', 'is_none_or', 'map_or', 'map_or_else', 'inspect', 'then',
                    'for_each', 'try_for_each', 'filter_map', 'find', 'any', 'all', 'flat_map', 'take_while', 'skip_while',
                    'unwrap_or_else', 'or_else', 'get_or_insert_with', 'fold', 'zip'}


def closure_feed(facts, cl):
    """for a closure literal handed to an Option / iterator adaptor: the receiver expression whose payload / elements the closure's
    first explicit parameter receives (in the parent's context), else None"""
    par = facts.bodies.get(cl.d.get('parent'))
    if par is None:
        return None
    for pt, t in par.calls():
        c = t.get('callee')
        if not c or c['name'] not in ADAPTORS_PAYLOAD or len(t['args']) < 2:
            continue
        last = par.expr_of_operand(t['args'][-1])
        if any(x[0] == 'agg' and x[1] == 'closure' and x[2] == cl.path for x in strip(last, through_calls=set())):
            return par.expr_of_operand(t['args'][0])
    return None


def resolve_closure_params(facts, e, depth=0):
    """replace the first explicit parameter of adaptor closures by the adaptor's receiver (payload view); `zip(a, b)` receivers are
    split by the tuple projection"""
    if depth > 6 or not isinstance(e, tuple) or not e or not isinstance(e[0], str):
        return e
    if e[0] == 'field' and e[1] and e[1][0] in ('arg', 'deref', 'ref') and e[2].isdigit():
        base = e[1]
        while base[0] in ('deref', 'ref'):
            base = base[1]
        if base[0] == 'arg' and base[1] == 2:
            cl = facts.bodies.get(base[3])
            if cl is not None and cl.d['kind'] == 'Closure':
                feed = closure_feed(facts, cl)
                if feed is not None:
                    for x in strip(feed, through_calls={'as_ref', 'as_mut', 'copied', 'cloned', 'iter', 'into_iter'}):
                        if x[0] == 'call' and x[1].rsplit('::', 1)[-1] == 'zip' and len(x[2]) == 2:
                            return resolve_closure_params(facts, x[2][int(e[2])] if int(e[2]) < 2 else e, depth + 1)
    if e[0] == 'arg' and e[1] == 2:
        cl = facts.bodies.get(e[3])
        if cl is not None and cl.d['kind'] == 'Closure':
            feed = closure_feed(facts, cl)
            if feed is not None:
                return ('payload', resolve_closure_params(facts, feed, depth + 1))
    out = []
    for x in e:
        if isinstance(x, tuple) and x and isinstance(x[0], str):
            out.append(resolve_closure_params(facts, x, depth + 1))
        elif isinstance(x, tuple):
            out.append(tuple(resolve_closure_params(facts, z, depth + 1) if isinstance(z, tuple) else z for z in x))
        else:
            out.append(x)
    return tuple(out)
