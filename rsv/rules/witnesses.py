"""Compile-fail witnesses with compiling twins (DESIGN §4 A-WIT).

Each witness is a small *external-crate* program compiled (type-checked only, never run) by the
same nightly rustc against the rmeta of /repo's current lib.  A compile-fail witness passes only
if (a) it fails with exactly the expected error code and (b) its twin, which differs only by the
offending line, compiles — so a witness whose path is merely wrong cannot pass.
"""
from ..core import RuleResult

PRELUDE = "#![allow(unused)]\nuse rspack_sources::*;\n"


def _witness(ctx, r, name, bad, good, code, why):
    okb, codes, msgs = ctx.witness(PRELUDE + bad)
    okg, gcodes, gmsgs = ctx.witness(PRELUDE + good)
    fail_ok = (not okb) and code in codes and all(c == code for c in codes)
    verdict = 'ok' if (fail_ok and okg) else 'violation'
    r.site('witness %s: must fail with %s; twin must compile' % (name, code), 'witness:' + name, verdict,
           got_codes=codes, twin_compiles=okg, twin_errors=gmsgs[:2])
    if verdict != 'ok':
        if not okg:
            # twin broken: the public API the witness relies on moved -> anchor problem, fail closed
            r.violation('%s:twin' % name, 'witness:' + name, name,
                        'compiling twin no longer compiles (%s): the API the witness anchors on changed; '
                        'the type-level guarantee cannot be shown (fail-closed)' % '; '.join(gmsgs[:2]),
                        reason='anchor')
        else:
            r.violation(name, 'witness:' + name, name,
                        why + ' — the violating program now type-checks (got %s)' % (codes or 'no error'))


def rule_w_mut(ctx):
    r = RuleResult('W-MUT', 'mutating a ReplaceSource requires `&mut`: no mutation can happen while an observer '
                            'borrow is alive (type-level; compile-fail witness)')
    r.floor = 1
    r.sound = True
    bad = """
pub fn f(s: &ReplaceSource<RawSource>) {
    s.replace(0, 1, "x", None);
}
"""
    good = """
pub fn f(s: &mut ReplaceSource<RawSource>) {
    s.replace(0, 1, "x", None);
}
"""
    _witness(ctx, r, 'W-MUT.replace', bad, good, 'E0596', 'replace() is callable through a shared reference')
    bad2 = bad.replace('s.replace(0, 1, "x", None)', 's.insert(0, "x", None)')
    good2 = good.replace('s.replace(0, 1, "x", None)', 's.insert(0, "x", None)')
    _witness(ctx, r, 'W-MUT.insert', bad2, good2, 'E0596', 'insert() is callable through a shared reference')
    r.check_floor()
    return r


def rule_w_opts(ctx):
    r = RuleResult('W-OPTS', 'outside callers cannot construct MapOptions with final_source = true '
                             '(field is crate-private; compile-fail witness)')
    r.floor = 1
    r.sound = True
    bad = """
pub fn f() -> MapOptions {
    MapOptions { columns: true, final_source: true }
}
"""
    good = """
pub fn f() -> MapOptions {
    MapOptions::new(true)
}
"""
    _witness(ctx, r, 'W-OPTS', bad, good, 'E0451', 'MapOptions.final_source is settable from outside the crate')
    r.check_floor()
    return r


def rule_w_sendsync(ctx):
    r = RuleResult('W-SENDSYNC', 'all source types are Send+Sync by auto traits only; Rope is not Sync-shareable '
                                 'by accident (compile-pass / compile-fail witnesses)')
    r.floor = 2
    r.sound = True
    good = """
fn ss<T: Send + Sync>() {}
pub fn f() {
    ss::<RawSource>(); ss::<RawStringSource>(); ss::<RawBufferSource>(); ss::<OriginalSource>();
    ss::<SourceMapSource>(); ss::<ConcatSource>(); ss::<ReplaceSource<RawSource>>();
    ss::<CachedSource<RawSource>>(); ss::<BoxSource>(); ss::<SourceMap>();
}
"""
    okg, codes, msgs = ctx.witness(PRELUDE + good)
    r.site('witness W-SENDSYNC.sources: all source types are Send + Sync', 'witness:W-SENDSYNC.sources',
           'ok' if okg else 'violation', errors=msgs[:2])
    if not okg:
        r.violation('W-SENDSYNC.sources', 'witness:W-SENDSYNC.sources', 'W-SENDSYNC',
                    'a source type is no longer Send+Sync (or the public type set changed): ' + '; '.join(msgs[:2]))
    # a non-Sync cell must not be smuggled into a source: RefCell-holding source would fail above.
    bad = """
fn ss<T: Send + Sync>() {}
pub fn f() { ss::<std::cell::RefCell<RawSource>>(); }
"""
    good2 = """
fn ss<T: Send>() {}
pub fn f() { ss::<std::cell::RefCell<RawSource>>(); }
"""
    _witness(ctx, r, 'W-SENDSYNC.control', bad, good2, 'E0277', 'negative control for the Send+Sync probe')
    r.check_floor()
    return r


def rule_w_unchecked(ctx):
    r = RuleResult('UNCHECKED-CALLERS(W)', 'unchecked slicing is not reachable from safe outside code: the SourceText '
                                           'trait is unnameable outside the crate and Rope::byte_slice_unchecked is `unsafe fn`')
    r.floor = 2
    r.sound = True
    bad = """
pub fn f(r: &Rope<'static>) -> Rope<'static> {
    r.byte_slice_unchecked(0..1)
}
"""
    good = """
pub fn f(r: &Rope<'static>) -> Rope<'static> {
    unsafe { r.byte_slice_unchecked(0..1) }
}
"""
    _witness(ctx, r, 'W-UNSAFE.byte_slice_unchecked', bad, good, 'E0133',
             'Rope::byte_slice_unchecked is callable without `unsafe`')
    bad2 = """
use rspack_sources::helpers::SourceText;
pub fn f() {}
"""
    good2 = """
use rspack_sources::stream_chunks::StreamChunks;
pub fn f() {}
"""
    _witness(ctx, r, 'W-UNSAFE.SourceText-private', bad2, good2, 'E0603',
             'the SourceText trait (with its unsafe byte_slice_unchecked) is nameable from outside')
    r.check_floor()
    return r
