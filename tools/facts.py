#!/usr/bin/env python3
"""dev helper: dump facts for a repo checkout: tools/facts.py [repo] [config] [outdir]"""
import sys, os
sys.path.insert(0, os.path.dirname(os.path.dirname(os.path.abspath(__file__))))
from rsv import build
repo = sys.argv[1] if len(sys.argv) > 1 else '/repo'
cfg = sys.argv[2] if len(sys.argv) > 2 else 'dev'
out = sys.argv[3] if len(sys.argv) > 3 else '/tmp/rsvdev'
os.makedirs(out, exist_ok=True)
print(build.analyse(repo, cfg, out).facts_path)
