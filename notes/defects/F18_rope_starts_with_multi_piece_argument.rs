// F18 (C06; the rope helper itself is C16): Rope::starts_with(single-piece receiver, multi-piece argument) tested equality,
// not prefix.  ReplaceSource's content check (`check_content_at_position`) uses it to decide whether the original column of a cut
// chunk may be advanced; over a replayed CachedSource the chunk text is a multi-piece rope, so the column was not advanced
// although the recorded content equals the text.  Fails on /repo 9f4bb8a, passes after the fix.
// Found by the round-10 C06 sub-agent; reported by PREFIX-EXHAUST.
use rspack_sources::*;

#[test]
fn rope_prefix() {
  assert!(Rope::from("abcd").starts_with(&Rope::from_iter(["ab", "c"])));
  assert!(Rope::from("abcd").starts_with(&Rope::from_iter(["ab", "cd"])));
  assert!(!Rope::from("abcd").starts_with(&Rope::from_iter(["ab", "d"])));
  assert!(!Rope::from("ab").starts_with(&Rope::from_iter(["ab", "c"])));
}

fn leaf(text: &str) -> SourceMapSource {
  // whole text -> f.js 1:0, content "abcd"
  let map = SourceMap::from_json(
    r#"{"version":3,"sources":["f.js"],"sourcesContent":["abcd"],"names":[],"mappings":"AAAA"}"#,
  )
  .unwrap();
  SourceMapSource::new(WithoutOriginalOptions { value: text.to_string(), name: "f.out.js", source_map: map })
}

#[test]
fn replace_over_cached_concat_advances_like_over_a_leaf() {
  let opts = MapOptions::default();
  let mut r0 = ReplaceSource::new(leaf("abcd"));
  r0.insert(3, "X", None);
  let cached = CachedSource::new(ConcatSource::new([leaf("ab").boxed(), leaf("cd").boxed()]));
  assert_eq!(cached.map(&opts).unwrap().mappings(), "AAAA"); // same text, same own map; fills the cache
  let mut r1 = ReplaceSource::new(cached);
  r1.insert(3, "X", None);
  assert_eq!(r0.map(&opts).unwrap().mappings(), "AAAA,GAAG");
  assert_eq!(r1.map(&opts).unwrap().mappings(), "AAAA,GAAG"); // before the fix: "AAAA"
}
