"""TAGGED-OFFSET (C04, C11): the per-line column correction of ReplaceSource's streamer is a *tagged value* — a pair of
cells (V, T) that stands for the function  offset(line) = V if line == T else 0.  The rule finds the pair by role (never by
name), and decides four shape-of-code clauses that every correct maintenance of such a pair satisfies:

  guarded   every read of V (also the read inside `V += d`) happens where `T == <line>` is known to hold: under the true edge of
            that comparison with neither T nor the compared variable written in between, or right after the pair was re-pointed
            (T written and V overwritten) in the same straight-line stretch;
  paired    whenever T is re-pointed to another line, V is overwritten (not carried over) in the same straight-line stretch,
            and whenever V is overwritten outside a guard, T is written there;
  coord     everything T is compared with is in the coordinate system of everything T is assigned (depends on the same
            line-offset cell(s));
  arms      in `if T == line { V = V + d } else { V = d'; T = line }` the two arms add the same amount: d == d' after linear
            normalisation (both arms implement "add d to offset(line)", the states (V=0,T=line) and (T != line) being the same
            abstract state).

The rule is conditional (policy of DESIGN 12.7): when no pair of that shape exists in ReplaceSource's streamer, it reports
"not decided" instead of failing closed."""
from ..core import RuleResult
from .. import anchors
from .streams import group_of

ADD = ('Add', 'AddWithOverflow', 'AddUnchecked')
SUB = ('Sub', 'SubWithOverflow', 'SubUnchecked')


class Cells:
    """root-local cells as seen from the root body and from the closures that capture them by reference"""

    def __init__(self, f, root, members):
        self.f, self.root, self.members = f, root, members
        self._up = {}

    def upvar_cell(self, m, k):
        """cell behind upvar field k of closure m, or None"""
        key = (m.key, k)
        if key in self._up:
            return self._up[key]
        self._up[key] = None
        par = self.f.body(m.d.get('parent'))
        if par is None:
            return None
        for pt, s in par.points():
            if s['k'] == 'assign' and s['r']['k'] == 'agg' and s['r'].get('ak') == 'closure' and s['r'].get('path') == m.path:
                if k >= len(s['r']['ops']):
                    return None
                o = s['r']['ops'][k]
                if o['k'] not in ('copy', 'move'):
                    return None
                c = self.cell_of_ref(par, o['p'])
                self._up[key] = c
                return c
        return None

    def cell_of_ref(self, b, p, depth=0):
        """cell a reference-valued place points to"""
        if depth > 6:
            return None
        if not p['pr']:
            if b.is_arg(p['l']):
                return None
            ds = b.whole_defs(p['l'])
            if len(ds) != 1 or ds[0][1] != 'assign':
                return None
            r = ds[0][2]['r']
            if r['k'] == 'ref':
                return self.cell_of_place(b, r['p'], depth + 1)
            if r['k'] == 'use' and r['o']['k'] in ('copy', 'move'):
                return self.cell_of_ref(b, r['o']['p'], depth + 1)
            return None
        # (*_1).k  or  _1.k : an upvar holding a reference
        pr = [x for x in p['pr']]
        if p['l'] == 1 and b.d['kind'] == 'Closure':
            i = 1 if pr and pr[0] == '*' else 0
            if i < len(pr) and isinstance(pr[i], dict) and pr[i].get('upvar') and len(pr) == i + 1:
                return self.upvar_cell(b, pr[i]['f'])
        return None

    def cell_of_place(self, b, p, depth=0):
        """cell an integer-valued place denotes"""
        if depth > 6:
            return None
        pr = p['pr']
        if not pr:
            if b is self.root and not b.is_arg(p['l']) and b.local_ty(p['l']) == 'i64' and b.local_name(p['l']):
                return p['l']
            return None
        if pr[-1] == '*':
            return self.cell_of_ref(b, {'l': p['l'], 'pr': pr[:-1]}, depth + 1)
        return None


def _operands(r):
    k = r['k']
    if k in ('use', 'cast', 'un', 'repeat'):
        return [r['o']]
    if k == 'bin':
        return [r['a'], r['b']]
    if k == 'agg':
        return list(r['ops'])
    return []


class Access:
    def __init__(self, m, pt, kind, cell, stmt, rv=None):
        self.m, self.pt, self.kind, self.cell, self.stmt, self.rv = m, pt, kind, cell, stmt, rv

    @property
    def site(self):
        return self.stmt.get('s', '?')


def accesses(C, m):
    """reads / writes of cells in body m, in program order per block"""
    out = []
    for pt, s in m.points():
        if s['k'] == 'assign':
            for o in _operands(s['r']):
                if o['k'] in ('copy', 'move'):
                    c = C.cell_of_place(m, o['p'])
                    if c is not None:
                        out.append(Access(m, pt, 'read', c, s))
            c = C.cell_of_place(m, s['p'])
            if c is not None:
                out.append(Access(m, pt, 'write', c, s, s['r']))
        elif s['k'] == 'call':
            for o in s['args']:
                if o['k'] in ('copy', 'move'):
                    c = C.cell_of_place(m, o['p'])
                    if c is not None:
                        out.append(Access(m, pt, 'read', c, s))
        elif s['k'] == 'switch':
            o = s['d']
            if o['k'] in ('copy', 'move'):
                c = C.cell_of_place(m, o['p'])
                if c is not None:
                    out.append(Access(m, pt, 'read', c, s))
    return out


def consumers(m, pt, s, depth=0):
    """operation kinds that finally consume the value produced by assign statement s (through unnamed copies)"""
    if s['k'] != 'assign':
        return {s['k']}
    r = s['r']
    if r['k'] == 'bin':
        return {r['op']}
    if r['k'] != 'use':
        return {r['k']}
    tgt = s['p']
    if tgt['pr'] or m.local_name(tgt['l']) or depth > 4:
        return {'store'}
    res = set()
    l = tgt['l']
    for pt2, s2 in m.points():
        ops = []
        if s2['k'] == 'assign':
            ops = _operands(s2['r'])
        elif s2['k'] == 'call':
            ops = s2['args']
        elif s2['k'] == 'switch':
            ops = [s2['d']]
        if any(o['k'] in ('copy', 'move') and o['p']['l'] == l and not o['p']['pr'] for o in ops):
            res |= consumers(m, pt2, s2, depth + 1)
    return res or {'dead'}


def _normal_succs(m, bb):
    t = m.term(bb)
    k = t['k']
    if k == 'goto':
        return [t['t']]
    if k in ('assert', 'call', 'drop'):
        return [t['t']] if t.get('t') is not None else []
    if k == 'switch':
        return [x[1] for x in t['targets']] + [t['otherwise']]
    return []


def _npreds(m, bb):
    return [p for p in m.preds(bb) if not m.is_cleanup(p)]


def stretch(m, bb):
    """the straight-line stretch around block bb (blocks executed exactly when bb is), in order"""
    up = []
    cur = bb
    while True:
        ps = _npreds(m, cur)
        if len(ps) != 1 or len(_normal_succs(m, ps[0])) != 1 or ps[0] in up or ps[0] == bb:
            break
        cur = ps[0]
        up.append(cur)
    down = []
    cur = bb
    while True:
        ss = _normal_succs(m, cur)
        if len(ss) != 1 or len(_npreds(m, ss[0])) != 1 or ss[0] in down or ss[0] == bb:
            break
        cur = ss[0]
        down.append(cur)
    return list(reversed(up)) + [bb] + down


def _reads_cell(C, m, rv, cell, depth=0):
    """does rvalue rv (through unnamed temporaries) read the cell?"""
    if depth > 8:
        return False
    for o in _operands(rv):
        if o['k'] not in ('copy', 'move'):
            continue
        if C.cell_of_place(m, o['p']) == cell:
            return True
        p = o['p']
        l = p['l']
        if m.local_name(l) or m.is_arg(l):
            continue
        if m.local_ty(l).startswith('&'):
            continue
        for dpt, k, d in m.whole_defs(l):
            if k == 'assign' and _reads_cell(C, m, d['r'], cell, depth + 1):
                return True
    return False


def deps(C, m, o, seen=None, depth=0):
    """cells an operand's value may depend on (flow-insensitive backward slice inside body m)"""
    if seen is None:
        seen = set()
    out = set()
    if o['k'] not in ('copy', 'move') or depth > 30:
        return out
    c = C.cell_of_place(m, o['p'])
    if c is not None:
        return {c}
    l = o['p']['l']
    if l in seen:
        return out
    seen.add(l)
    for dpt, k, d in m.defs(l):
        if k == 'assign':
            if d['r']['k'] == 'agg' and d['r'].get('ak') == 'closure':
                continue        # a closure that captured the cells is not a value computed from them
            for x in _operands(d['r']):
                out |= deps(C, m, x, seen, depth + 1)
            if d['r']['k'] in ('ref', 'copyderef'):
                out |= deps(C, m, {'k': 'copy', 'p': d['r']['p']}, seen, depth + 1)
        elif k == 'call':
            # the result of a call depends on its integer arguments (a helper such as `out_line(inner_line, offset)`); callbacks
            # and other objects handed to the call are not followed
            for x in d['args']:
                if x['k'] in ('copy', 'move') and _is_intlike(x['p'].get('ty') or ''):
                    out |= deps(C, m, x, seen, depth + 1)
    return out


def _is_intlike(ty):
    t = ty.replace('&mut ', '').replace('&', '').strip()
    return t in ('i64', 'i32', 'u32', 'u64', 'usize', 'isize', 'u8', 'u16', 'i8', 'i16')


# ---------------------------------------------------------------- linear normal form
def _ex(C, m, o, depth=0):
    if o['k'] == 'const':
        if 'int' in o:
            return ('c', int(o['int']))
        return ('k', str(o.get('ty')))
    if o['k'] not in ('copy', 'move'):
        return ('?', o['k'])
    p = o['p']
    c = C.cell_of_place(m, p)
    if c is not None:
        return ('cell', c)
    l = p['l']
    base = None
    if m.local_name(l) or m.is_arg(l) or depth > 12:
        base = ('loc', l)
    else:
        ds = m.whole_defs(l)
        if len(ds) != 1:
            base = ('loc', l)
        else:
            dpt, k, d = ds[0]
            if k == 'call':
                cal = d.get('callee') or {}
                base = ('call', cal.get('resolved') or cal.get('path') or '?', tuple(_ex(C, m, a, depth + 1) for a in d['args']))
            else:
                r = d['r']
                if r['k'] == 'use':
                    base = _ex(C, m, r['o'], depth + 1)
                elif r['k'] == 'cast':
                    base = ('cast', r.get('ty'), _ex(C, m, r['o'], depth + 1))
                elif r['k'] == 'bin':
                    base = ('bin', r['op'], _ex(C, m, r['a'], depth + 1), _ex(C, m, r['b'], depth + 1))
                elif r['k'] == 'un':
                    base = ('un', r['op'], _ex(C, m, r['o'], depth + 1))
                elif r['k'] in ('ref', 'copyderef'):
                    base = ('ref', _ex(C, m, {'k': 'copy', 'p': r['p']}, depth + 1))
                else:
                    base = ('loc', l)
    for x in p['pr']:
        if x == '*':
            if base[0] == 'ref':
                base = base[1]
            else:
                base = ('deref', base)
        elif isinstance(x, dict) and 'f' in x:
            if base[0] == 'bin' and base[1].endswith('WithOverflow') and x['f'] == 0:
                continue
            base = ('field', base, x.get('n', x['f']))
        else:
            base = ('proj', base, str(sorted(x.items())) if isinstance(x, dict) else str(x))
    return base


def _lin(e):
    """{atom: coeff} with () for the constant, or None"""
    if e[0] == 'c':
        return {(): e[1]}
    if e[0] == 'bin' and (e[1] in ADD or e[1] in SUB):
        a, b = _lin(e[2]), _lin(e[3])
        if a is None or b is None:
            return None
        sgn = 1 if e[1] in ADD else -1
        out = dict(a)
        for k, v in b.items():
            out[k] = out.get(k, 0) + sgn * v
        return {k: v for k, v in out.items() if v != 0}
    if e[0] == 'un' and e[1] == 'Neg':
        a = _lin(e[2])
        return None if a is None else {k: -v for k, v in a.items()}
    if e[0] in ('?', 'k'):
        return None
    return {e: 1}


def _fmt_lin(d, names):
    def atom(a):
        if a == ():
            return '1'
        if a[0] == 'cell':
            return names.get(a[1], 'cell%d' % a[1])
        s = repr(a)
        return s if len(s) < 90 else s[:87] + '...'
    return ' + '.join('%d*%s' % (v, atom(k)) for k, v in sorted(d.items(), key=repr)) or '0'


# ---------------------------------------------------------------- the rule
def rule_tagged_offset(ctx):
    f = ctx.facts()
    r = RuleResult('TAGGED-OFFSET',
                   'ReplaceSource\'s per-line column correction is a tagged value (V, T) = "offset(line) = V if line == T else 0": '
                   'V is only read where T == line is known, T is never re-pointed while V is carried over, T is compared in the '
                   'coordinates it is assigned in, and both arms of every tagged update add the same amount')
    rs = anchors.adt_by_name(f, 'ReplaceSource')
    st = anchors.trait_path(f, 'StreamChunks')
    roots = [b for b in f.body_list if b.promoted is None and b.d['kind'] != 'Closure' and b.d.get('impl_adt') == rs['path']
             and b.d.get('impl_trait') == st]
    if len(roots) != 1:
        raise anchors.AnchorMissing('StreamChunks impl of ReplaceSource')
    root = roots[0]
    members = group_of(f, root)
    C = Cells(f, root, members)
    acc = []
    for m in members:
        acc.extend(accesses(C, m))
    cells = sorted({a.cell for a in acc})
    names = {c: root.local_name(c) for c in cells}

    def is_init(a):
        return a.m is root and a.kind == 'write' and a.rv['k'] == 'use' and a.rv['o']['k'] == 'const' and \
            all(root.dominates(a.pt, b.pt) for b in acc if b.cell == a.cell and b is not a and b.m is root)

    # ---- role T: every read ends in an equality test
    tags = []
    for c in cells:
        reads = [a for a in acc if a.cell == c and a.kind == 'read']
        writes = [a for a in acc if a.cell == c and a.kind == 'write' and not is_init(a)]
        if not reads or len(writes) < 2:
            continue
        if all(consumers(a.m, a.pt, a.stmt) <= {'Eq', 'Ne'} for a in reads):
            tags.append(c)
    if len(tags) != 1:
        r.info('not decided: ReplaceSource::stream_chunks has %d cells that are only ever compared for equality (the recogniser '
               'knows the tagged-value idiom with exactly one tag cell)' % len(tags))
        return r
    T = tags[0]
    t_writes = [a for a in acc if a.cell == T and a.kind == 'write' and not is_init(a)]
    # ---- role V: written in the straight-line stretch of every re-pointing of T
    cand = None
    for w in t_writes:
        blocks = set(stretch(w.m, w.pt[0]))
        here = {a.cell for a in acc if a.m is w.m and a.kind == 'write' and a.cell != T and a.pt[0] in blocks}
        cand = here if cand is None else (cand & here)
    if not cand or len(cand) != 1:
        # a T write without any partner: decide with the majority partner if there is exactly one
        count = {}
        for w in t_writes:
            blocks = set(stretch(w.m, w.pt[0]))
            for c in {a.cell for a in acc if a.m is w.m and a.kind == 'write' and a.cell != T and a.pt[0] in blocks}:
                count[c] = count.get(c, 0) + 1
        best = sorted(count.items(), key=lambda kv: -kv[1])
        if best and (len(best) == 1 or best[0][1] > best[1][1]) and best[0][1] * 2 > len(t_writes):
            cand = {best[0][0]}
        else:
            r.info('not decided: no single value cell is written together with the tag cell')
            return r
    V = next(iter(cand))
    vname, tname = names.get(V) or 'V', names.get(T) or 'T'
    r.info('tagged value found by role: value cell `%s`, tag cell `%s` (%d re-pointings of the tag)' % (vname, tname, len(t_writes)))

    def guard_of(m, pt):
        """(switch block, true target, other operand) of the nearest dominating `T == e` whose true edge dominates pt"""
        dom = m.dom().get(pt[0], set())
        best = None
        for d in dom | {pt[0]}:
            t = m.term(d)
            if t['k'] != 'switch' or t['d']['k'] not in ('copy', 'move') or t['d']['p']['pr']:
                continue
            ds = m.whole_defs(t['d']['p']['l'])
            if len(ds) != 1 or ds[0][1] != 'assign' or ds[0][2]['r']['k'] != 'bin' or ds[0][2]['r']['op'] not in ('Eq', 'Ne'):
                continue
            b = ds[0][2]['r']
            sides = [b['a'], b['b']]
            tside = [i for i, o in enumerate(sides) if T in deps(C, m, o) and deps(C, m, o) == {T}]
            if len(tside) != 1:
                continue
            other = sides[1 - tside[0]]
            false_t = [x[1] for x in t['targets'] if x[0] == 0]
            true_t = [t['otherwise']]
            if b['op'] == 'Ne':
                false_t, true_t = true_t, false_t
            for g in true_t:
                if (g == pt[0] or g in dom) and len(_npreds(m, g)) == 1 and g != d:
                    depth = len(m.dom().get(d, ()))
                    if best is None or depth > best[0]:
                        best = (depth, d, g, other, ds[0][0])
        return best

    def roots_of(m, o):
        """named locals an operand is copied from (for the stability check)"""
        out = set()
        if o['k'] not in ('copy', 'move'):
            return out
        l = o['p']['l']
        if m.local_name(l) or m.is_arg(l):
            return {l}
        for dpt, k, d in m.whole_defs(l):
            if k == 'assign' and d['r']['k'] == 'use':
                out |= roots_of(m, d['r']['o'])
        return out

    def killed_between(m, g, pt, other):
        """is T, or the variable T was compared with, written on a path from the guard edge to pt?"""
        watch = roots_of(m, other)
        region = {b for b in range(len(m.blocks)) if (b == g or g in m.dom().get(b, set())) and (b == pt[0] or m.can_reach(b, pt[0]))}
        for a in acc:
            if a.m is m and a.cell == T and a.kind == 'write' and a.pt[0] in region and (a.pt[0] != pt[0] or a.pt < pt):
                return 'the tag is written between the test and this read'
        for b in region:
            for i, s in enumerate(m.stmts(b)):
                if (b, i) >= tuple(pt) and b == pt[0]:
                    break
                if s['k'] == 'assign' and not s['p']['pr'] and s['p']['l'] in watch:
                    return 'the compared line variable is written between the test and this read'
        return None

    def repointed_before(m, pt):
        """T written and V overwritten earlier in the same straight-line stretch"""
        blocks = stretch(m, pt[0])
        idx = blocks.index(pt[0])
        before = set(blocks[:idx + 1])
        tw = vw = False
        for a in acc:
            if a.m is not m or a.kind != 'write' or a.pt[0] not in before or (a.pt[0] == pt[0] and a.pt >= pt):
                continue
            if a.cell == T:
                tw = True
            if a.cell == V and not _reads_cell(C, m, a.rv, V):
                vw = True
        return tw and vw

    # ---- clause: guarded
    for a in acc:
        if a.cell != V or a.kind != 'read':
            continue
        g = guard_of(a.m, a.pt)
        why = None
        if g is None:
            if repointed_before(a.m, a.pt):
                r.site('%s: read of the value cell right after the pair was re-pointed' % a.m.path, a.site, 'ok')
                continue
            why = 'no test of the tag cell dominates it'
        else:
            why = killed_between(a.m, g[2], a.pt, g[3])
        r.site('%s: read of the value cell %s' % (a.m.path, 'under `tag == line`' if why is None else '— ' + why), a.site,
               'ok' if why is None else 'violation')
        if why is not None:
            r.violation('%s:unguarded-read' % a.m.path, a.site, a.m.path,
                        'the column correction `%s` is read where `%s == <current line>` is not known to hold (%s): a correction '
                        'that belongs to another output line is applied to (or accumulated into) this one, so chunks are reported '
                        'at columns where their text does not start' % (vname, tname, why))
    # ---- clause: paired
    for w in t_writes:
        blocks = set(stretch(w.m, w.pt[0]))
        vws = [a for a in acc if a.m is w.m and a.cell == V and a.kind == 'write' and a.pt[0] in blocks]
        ok = any(not _reads_cell(C, w.m, a.rv, V) for a in vws)
        r.site('%s: tag re-pointed, value %s' % (w.m.path, 'overwritten' if ok else 'carried over'), w.site, 'ok' if ok else 'violation')
        if not ok:
            r.violation('%s:repointed-carry' % w.m.path, w.site, w.m.path,
                        'the tag `%s` is re-pointed to another line while the correction `%s` keeps (or accumulates onto) the value '
                        'it had for the previous line' % (tname, vname))
    for a in acc:
        if a.cell != V or a.kind != 'write' or is_init(a) or _reads_cell(C, a.m, a.rv, V):
            continue
        if guard_of(a.m, a.pt) is not None and killed_between(a.m, guard_of(a.m, a.pt)[2], a.pt, guard_of(a.m, a.pt)[3]) is None:
            r.site('%s: value overwritten under `tag == line`' % a.m.path, a.site, 'ok')
            continue
        blocks = set(stretch(a.m, a.pt[0]))
        ok = any(b.m is a.m and b.cell == T and b.kind == 'write' and b.pt[0] in blocks for b in acc)
        r.site('%s: value overwritten, tag %s' % (a.m.path, 're-pointed' if ok else 'left alone'), a.site, 'ok' if ok else 'violation')
        if not ok:
            r.violation('%s:overwrite-untagged' % a.m.path, a.site, a.m.path,
                        'the correction `%s` is overwritten for the current line but the tag `%s` still names the line of the '
                        'previous correction' % (vname, tname))
    # ---- clause: coord
    def expand(d):
        """close a dependency set over the values written to the cells in it (a root variable such as `line` is itself a cell)"""
        d = set(d)
        while True:
            more = set()
            for a in acc:
                if a.kind == 'write' and a.cell in d and a.cell not in (T, V):
                    for o in _operands(a.rv):
                        more |= deps(C, a.m, o)
            if more <= d:
                return d
            d |= more

    core = None
    for w in t_writes:
        d = set()
        for o in _operands(w.rv):
            d |= deps(C, w.m, o)
        d = expand(d) - {T, V}
        core = d if core is None else (core & d)
    if core:
        seen_guards = set()
        for m in members:
            for bi in range(len(m.blocks)):
                t = m.term(bi)
                if t['k'] != 'switch' or m.is_cleanup(bi) or t['d']['k'] not in ('copy', 'move') or t['d']['p']['pr']:
                    continue
                ds = m.whole_defs(t['d']['p']['l'])
                if len(ds) != 1 or ds[0][1] != 'assign' or ds[0][2]['r']['k'] != 'bin' or ds[0][2]['r']['op'] not in ('Eq', 'Ne'):
                    continue
                b = ds[0][2]['r']
                sides = [b['a'], b['b']]
                tside = [i for i, o in enumerate(sides) if deps(C, m, o) == {T}]
                if len(tside) != 1 or (m.key, ds[0][0]) in seen_guards:
                    continue
                seen_guards.add((m.key, ds[0][0]))
                od = expand(deps(C, m, sides[1 - tside[0]]))
                ok = core <= od
                r.site('%s: tag compared with a line that %s' % (m.path, 'is in output coordinates' if ok else 'does not include the line offset'),
                       ds[0][2]['s'], 'ok' if ok else 'violation')
                if not ok:
                    r.violation('%s:coord' % m.path, ds[0][2]['s'], m.path,
                                'the tag `%s` is always assigned a line that includes %s, but is compared here with a line that does '
                                'not: an inner-source line number is taken for an output line number, so the correction is applied to '
                                'the wrong line as soon as a replacement has added or removed a line break'
                                % (tname, ', '.join('`%s`' % (names.get(c) or c) for c in sorted(core))))
    else:
        r.info('coord clause not decided: the values assigned to the tag share no line-offset cell')
    # ---- clause: arms
    done = set()
    for m in members:
        for bi in range(len(m.blocks)):
            if m.is_cleanup(bi):
                continue
            t = m.term(bi)
            if t['k'] != 'switch':
                continue
            g = None
            for x in _normal_succs(m, bi):
                gg = guard_of(m, (x, 0))
                if gg is not None and gg[1] == bi and gg[2] == x:
                    g = gg
            if g is None or (m.key, bi) in done:
                continue
            done.add((m.key, bi))
            true_b = g[2]
            others = [x for x in _normal_succs(m, bi) if x != true_b]
            if len(others) != 1:
                continue
            tb, fb = set(stretch(m, true_b)) - {bi}, set(stretch(m, others[0])) - {bi}
            tw = [a for a in acc if a.m is m and a.cell == V and a.kind == 'write' and a.pt[0] in tb and a.pt[0] not in fb]
            fw = [a for a in acc if a.m is m and a.cell == V and a.kind == 'write' and a.pt[0] in fb and a.pt[0] not in tb]
            if len(tw) == 1 and not fw and _reads_cell(C, m, tw[0].rv, V) and \
                    not any(a.m is m and a.cell == T and a.kind == 'write' and a.pt[0] in fb for a in acc):
                # `if T == line { V += d }` and nothing where T != line: offset(line) is 0 there, so the update has to start a
                # correction (V = d; T = line); dropping it is right only if d happens to be 0 on that path
                r.site('%s: tagged update — only the arm where the tag already names the line exists' % m.path, tw[0].site, 'violation')
                r.violation('%s:arms-missing' % m.path, tw[0].site, m.path,
                            'the update adds to `%s` where `%s` already names the current line and does nothing where it does not: on '
                            'that path the line has no correction yet (offset 0), so the amount is lost instead of starting a '
                            'correction for the line — text that follows on the output line is reported at columns that do not '
                            'include it' % (vname, tname))
                continue
            if len(tw) != 1 or len(fw) != 1:
                continue
            le = _lin(_ex(C, m, {'k': 'copy', 'p': tw[0].stmt['p']}) if False else _rv_ex(C, m, tw[0].rv))
            lf = _lin(_rv_ex(C, m, fw[0].rv))
            if le is None or lf is None or le.get(('cell', V), 0) != 1 or ('cell', V) in lf:
                r.site('%s: tagged update — arms not comparable (not decided)' % m.path, tw[0].site, 'ok', note='not compared')
                continue
            le = {k: v for k, v in le.items() if k != ('cell', V)}
            ok = le == lf
            r.site('%s: tagged update — both arms add %s' % (m.path, _fmt_lin(le, names)) if ok else
                   '%s: tagged update — arms differ' % m.path, tw[0].site, 'ok' if ok else 'violation')
            if not ok:
                r.violation('%s:arms' % m.path, fw[0].site, m.path,
                            'where `%s` already names the line the update adds [%s] to `%s`, where it does not the correction starts '
                            'from [%s]: the same deletion / insertion shifts later chunks of the line differently depending on whether '
                            'an earlier correction happened to exist on that line' % (tname, _fmt_lin(le, names), vname, _fmt_lin(lf, names)))
    return r


def _rv_ex(C, m, rv):
    k = rv['k']
    if k == 'use':
        return _ex(C, m, rv['o'])
    if k == 'bin':
        return ('bin', rv['op'], _ex(C, m, rv['a']), _ex(C, m, rv['b']))
    if k == 'un':
        return ('un', rv['op'], _ex(C, m, rv['o']))
    if k == 'cast':
        return ('cast', rv.get('ty'), _ex(C, m, rv['o']))
    return ('?', k)
