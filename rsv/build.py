"""Run the rustc_private driver over a checkout of rspack-sources and return the fact base.

Route (see DESIGN §3.1): stable cargo 1.83 (pinned by the repo) drives the build, but is handed
the nightly rustc and our driver as RUSTC_WORKSPACE_WRAPPER.  The member crate is always
re-analysed: its cargo fingerprint is removed first and the facts file must carry this run's
nonce, otherwise the run is an infrastructure error (never a pass).
"""
import fcntl
import glob
import json
import os
import shutil
import subprocess
import tempfile
import time
import uuid

VERIF = os.path.dirname(os.path.dirname(os.path.abspath(__file__)))
DRIVER = os.path.join(VERIF, 'driver', 'target', 'release', 'rsv-driver')
# the dependency build cache; RSV_CACHE relocates it (used to run several thorough tiers in parallel, one cache copy each)
CACHE = os.environ.get('RSV_CACHE') or os.path.join(VERIF, '.cache')

CONFIGS = {
    # name -> (extra rustflags, cargo args)
    'dev': ('', ['--lib']),
    'release': ('-C overflow-checks=off -C debug-assertions=off', ['--lib']),
    'test': ('', ['--lib', '--profile', 'test']),
}


class InfraError(Exception):
    pass


def _run(cmd, **kw):
    return subprocess.run(cmd, stdout=subprocess.PIPE, stderr=subprocess.STDOUT, text=True, **kw)


_TOOL = {}


def nightly():
    if not _TOOL:
        r = _run(['rustup', 'which', '--toolchain', 'nightly', 'rustc'])
        if r.returncode != 0:
            raise InfraError('nightly rustc not found: ' + r.stdout)
        _TOOL['rustc'] = r.stdout.strip()
        r = _run([_TOOL['rustc'], '--print', 'sysroot'])
        _TOOL['sysroot'] = r.stdout.strip()
    return _TOOL['rustc'], _TOOL['sysroot']


def ensure_driver():
    if not os.path.exists(DRIVER):
        r = _run(['cargo', '+nightly', 'build', '--offline', '--release'],
                 cwd=os.path.join(VERIF, 'driver'), env=dict(os.environ, CARGO_NET_OFFLINE='true'))
        if r.returncode != 0 or not os.path.exists(DRIVER):
            raise InfraError('driver build failed:\n' + r.stdout[-3000:])


class Analysis:
    """Result of one driver run."""

    def __init__(self, facts_path, target_dir, config, repo, wall, log):
        self.facts_path = facts_path
        self.target_dir = target_dir
        self.config = config
        self.repo = repo
        self.wall = wall
        self.log = log


def analyse(repo='/repo', config='dev', out_dir=None):
    """Run cargo check + driver on `repo`; returns Analysis.  Caller owns out_dir."""
    ensure_driver()
    rustc, sysroot = nightly()
    flags, cargo_args = CONFIGS[config]
    os.makedirs(CACHE, exist_ok=True)
    target = os.path.join(CACHE, 'target-' + config)
    os.makedirs(target, exist_ok=True)
    if out_dir is None:
        out_dir = tempfile.mkdtemp(prefix='rsv-facts-')
    nonce = uuid.uuid4().hex
    env = dict(os.environ)
    env.update({
        'RUSTC': rustc,
        'LD_LIBRARY_PATH': sysroot + '/lib' + (':' + env['LD_LIBRARY_PATH'] if env.get('LD_LIBRARY_PATH') else ''),
        'RUSTC_WORKSPACE_WRAPPER': DRIVER,
        'RUSTFLAGS': ('-Zmir-opt-level=0 -Awarnings ' + flags).strip(),
        'CARGO_TARGET_DIR': target,
        'CARGO_NET_OFFLINE': 'true',
        'RSV_OUT': out_dir,
        'RSV_NONCE': nonce,
        'CARGO_INCREMENTAL': '0',
    })
    env.pop('RUSTUP_TOOLCHAIN', None)
    t0 = time.time()
    lock = open(os.path.join(CACHE, 'lock-' + config), 'w')
    fcntl.flock(lock, fcntl.LOCK_EX)
    try:
        # force re-analysis of the member crate (cargo's freshness cache would skip the wrapper)
        for prof in os.listdir(target) if os.path.isdir(target) else []:
            for fp in glob.glob(os.path.join(target, prof, '.fingerprint', 'rspack_sources-*')):
                shutil.rmtree(fp, ignore_errors=True)
        cmd = ['cargo', 'check', '--offline'] + cargo_args
        r = _run(cmd, cwd=repo, env=env)
        kind = 'test' if config == 'test' else 'lib'
        facts = os.path.join(out_dir, 'facts-rspack_sources-%s.json' % kind)
        if r.returncode != 0:
            raise InfraError('cargo check failed (config %s) in %s:\n%s' % (config, repo, r.stdout[-4000:]))
        if not os.path.exists(facts):
            raise InfraError('driver produced no facts file (config %s):\n%s' % (config, r.stdout[-2000:]))
        with open(facts) as f:
            head = f.read(200)
        if nonce not in head:
            raise InfraError('stale facts file: nonce mismatch')
        # keep a private copy of the rmeta for witnesses (target dir is shared)
        rmetas = sorted(glob.glob(os.path.join(target, 'debug', 'deps', 'librspack_sources-*.rmeta')),
                        key=os.path.getmtime)
        if rmetas:
            shutil.copy(rmetas[-1], os.path.join(out_dir, 'librspack_sources.rmeta'))
    finally:
        fcntl.flock(lock, fcntl.LOCK_UN)
        lock.close()
    return Analysis(facts, target, config, repo, time.time() - t0, r.stdout[-2000:])


def compile_witness(src_text, analysis, out_dir):
    """Compile an external-crate program against the lib's rmeta with nightly rustc.
    Returns (ok, [error codes], raw messages)."""
    rustc, sysroot = nightly()
    src = os.path.join(out_dir, 'w_%s.rs' % uuid.uuid4().hex[:8])
    with open(src, 'w') as f:
        f.write(src_text)
    rmeta = os.path.join(os.path.dirname(analysis.facts_path), 'librspack_sources.rmeta')
    deps = os.path.join(analysis.target_dir, 'debug', 'deps')
    env = dict(os.environ, LD_LIBRARY_PATH=sysroot + '/lib')
    cmd = [rustc, '--edition', '2021', '--crate-type', 'lib', '--emit=metadata', '--error-format=json',
           '-Awarnings', '-Zmir-opt-level=0', '--extern', 'rspack_sources=' + rmeta, '-L', 'dependency=' + deps,
           '-o', os.path.join(out_dir, 'w.rmeta'), src]
    r = subprocess.run(cmd, stdout=subprocess.PIPE, stderr=subprocess.PIPE, text=True, env=env)
    codes, msgs = [], []
    for line in r.stderr.splitlines():
        try:
            m = json.loads(line)
        except Exception:
            continue
        if m.get('level') == 'error':
            c = (m.get('code') or {}).get('code')
            if c:
                codes.append(c)
            msgs.append(m.get('message', ''))
    os.unlink(src)
    return r.returncode == 0, codes, msgs
