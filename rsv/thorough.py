"""thorough tier: extra configurations + canary self-test (filled in below)."""


def run(prop, ctx, results):
    return {}
