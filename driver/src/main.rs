//! rsv-driver: a `rustc_private` wrapper that type-checks the crate exactly as the
//! real build does and dumps a *fact base* (resolved MIR, ADTs, impls, evaluated
//! constants, unsafe inventory) as JSON for the rule engine in /verif/rules.
//!
//! Invoked through RUSTC_WORKSPACE_WRAPPER: argv[1] is the real rustc path (dropped).
//! Output: $RSV_OUT/facts-<crate>-<test|lib>.json, one write per process.
#![feature(rustc_private)]
#![allow(clippy::all)]

extern crate rustc_abi;
extern crate rustc_driver;
extern crate rustc_hir;
extern crate rustc_interface;
extern crate rustc_middle;
extern crate rustc_session;
extern crate rustc_span;

mod json;
mod dump;

use rustc_driver::{Callbacks, Compilation};
use rustc_interface::interface;
use rustc_middle::ty::TyCtxt;

struct Cb;

impl Callbacks for Cb {
    fn after_analysis<'tcx>(&mut self, _c: &interface::Compiler, tcx: TyCtxt<'tcx>) -> Compilation {
        let krate = tcx.crate_name(rustc_span::def_id::LOCAL_CRATE).to_string();
        let want = std::env::var("RSV_CRATE").unwrap_or_else(|_| "rspack_sources".to_string());
        if krate == want {
            dump::dump(tcx, &krate);
        }
        Compilation::Continue
    }
}

fn main() {
    let mut args: Vec<String> = std::env::args().collect();
    // RUSTC_WORKSPACE_WRAPPER passes the real rustc as argv[1]
    if args.len() > 1 && (args[1].ends_with("rustc") || args[1].contains("/rustc")) {
        args.remove(1);
    }
    rustc_driver::run_compiler(&args, &mut Cb);
}
