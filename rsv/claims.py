"""What MANIFEST.json says per property.  A property is claimed only through rules that exist in
registry.PROPERTY_RULES; everything else is listed not_applicable with the reason."""

NOTE = ('Trusted base: nightly rustc front end + MIR construction (the analysed MIR is nightly\'s, the shipped '
        'crate is built by the pinned 1.83; rules speak about source-level structure both agree on), the '
        'rsv-driver fact extractor, the python rule engine, and the std/dashmap/itertools API contracts named per '
        'rule in DESIGN §7c. lib target, cfg(not(test)), default features. The rules decide the named structural '
        'clauses only, not the behaviour.')

CLAIMS = {
    'C05': dict(
        category='other',
        text='Static, for every history: the clause "the result depends only on the inner source and the sequence of '
             'replace/insert calls, never on which observers were called in between" and the ordering key. Decided on '
             'MIR: every mutation of the replacement list is post-dominated by a reset of the sorted-flag (RESET); the '
             'flag is published true only after an index computed from the current list is stored, constructors start '
             'sorted only when empty (FRESH); every order-sensitive reader goes through the freshened, locked index '
             '(ORDERED-READ); the sort is stable with key (start,end,enforce) derived from the public mutator\'s '
             'parameters and Pre<Normal<Post (SORTKEY); mutation needs &mut (W-MUT compile-fail witness). NOT decided: '
             'the splice loops (copy/emit/consume arithmetic, clamping). Added: every slice bound in source()/rope() is clamped to the inner length (CLAMP) and both splice implementations share one position skeleton (SIBLING-SPLICE); the arithmetic itself remains undecided. Round 4: SIBLING-SPLICE also requires the copy cursor to be max(cursor, replacement end) ("everything up to its end counts as consumed").',
        technique='MIR post-dominator / dominator / def-use rules over resolved callees and field accesses + '
                  'compile-fail witness',
        design_ref='§5 C05'),
    'C10': dict(
        category='other',
        text='Static, for every call history: the map cache is keyed by the caller\'s own full option set and the value '
             'stored under a key is computed by a call that receives those same options; MapOptions\' Eq/Hash are the derived '
             'ones (cover columns and final_source) (KEY); cached maps and the memoised hash are write-once — only '
             'readers and first-writers (VacantEntry::insert / Entry::or_insert*) touch the map cache, the cache fields '
             'are never reassigned (WRITEONCE); memo cells are used through get/get_or_init/clone only and every initialiser '
             'reads data fields only (MEMO). NOT decided: that replay from (cached map + rope) attributes like the wrapped source. Added: both map collectors (map() and the cache-filling tee) feed every mapping to the encoder unconditionally (ENCODE-ALL), a necessary condition of replay transparency; content views forward (DELEG). Round 3: the cache is never traversed, only read under the caller\'s key (KEY); MEMO covers every OnceLock/OnceCell cell; MEMO-RESET. Round 4: ENC-DEDUP — the cached map is produced by an encoder that does not swallow differing segments. TEE-FORWARD registered here as well (the first, cache-filling stream is as good as the wrapped source\'s own). SIBLING-SPLICE registered here as well: the replay streams rope(), which must render to source(). Round 7: COLLECTOR-SIBLING - get_map and the cache-filling tee store announced file names, contents and names in the same shape. Round 8: PREFIX-SUM - every (piece, offset) pair built for a rope chunk vector stores 0, a total of the vector it is appended to, or a running accumulator whose next update adds exactly the length of the stored piece; existing pairs are not copied verbatim into a vector that already holds one. Offsets of any other form are reported as unrecognised and not decided.',
        technique='who-may-call / receiver-type allow-list over resolved callees, def-use key provenance on MIR; sibling cross-checks of collectors and views; symbolic length matching of rope offset accumulators',
        design_ref='§5 C10'),
    'C14': dict(
        category='other',
        text='Static, for all values and observer histories: no PartialEq/Hash body (derived or hand-written, including what it '
             'calls on self) reads cache state except through a memo accessor, memo cells are never compared/hashed/mutated '
             'themselves and all initialisers of a cell agree (MEMO); `==` of every type compares every data field (EQCOVER); '
             'Hash reads no data field Eq ignores, i.e. a==b implies equal hashes (HASH-IN-EQ); every hand-written Clone copies '
             'every data field from self (CLONECOVER). NOT decided: "equal values give equal answers from every observer" as behaviour. Also registered here because the clauses depend on them: RESET/FRESH (the sorted accessor MEMO trusts is pure only if they hold), KEY/WRITEONCE (repeating an observer call never changes its answer), HASHALL (a container hash covers every element). Round 3: a cache shared between clones requires immutable data (CLONECOVER shared-cache); MEMO-RESET. Round 3b: EQ-ALLPATHS — in a hand-written eq, every path to `true` compares every data field (no data-dependent shortcut to equality). Round 5: FRESH also requires that a copied sorted-flag comes with a copied index (Clone); EQ-ALLPATHS requires a length comparison next to an element-wise zip. Round 6: MEMO — inside Eq / Hash a memo cell may only be the receiver of get_or_init (get() would reveal whether it has been filled). COLLECTOR-SIBLING registered here as well.',
        technique='field-access-set analysis (A-FIELDS) over Eq/Hash/Clone cones on MIR; DATA/CACHE classification by Freeze',
        design_ref='§5 C14'),
    'C18': dict(
        category='other',
        text='Static, for every schedule: cached maps are never removed or replaced (WRITEONCE: only first-writers may write '
             'the map cache, anywhere in the crate); the sorted-flag/sorted-index publication pair is written data-before-flag '
             '(FRESH) and read flag-before-data, including by Clone which copies the pair (PUBLISH-ORDER); all source types are '
             'Send+Sync by auto traits and mutation needs &mut (witnesses), so data-race freedom of the safe code is the '
             'compiler\'s. NOT decided: sequential consistency of results in general, deadlock freedom with re-entrant callbacks. Round 3: LOCKSCOPE — the sorted-index guard is never live across a call into a source or a caller-supplied callback (a structural necessary condition of the no-deadlock clause). Round 4: LOCKSCOPE also covers any trait method invoked on a value of the wrapped source\'s type parameter (Hash / PartialEq of the child under the guard).',
        technique='who-may-call over resolved callees, dominator ordering of atomic flag vs. guarded data on MIR, compile witnesses',
        design_ref='§5 C18'),
    'C20': dict(
        category='other',
        text='Static, for all pairs of values: every data field that `==` compares is fed to the hasher, with named exemptions '
             '(SourceMapSource::name per the statement; fields constant in every constructor) (HASHCOVER); hash cones contain no '
             'address/TypeId/random/time/thread input, no hash-map iteration and construct only FxHasher (HASHDET); the memoised '
             'hash is a function of the data only (MEMO). NOT decided: absence of accidental collisions, prefix-freeness. Added: HASHALL (no skipped elements in container hashes); RESET/FRESH/PUBLISH-ORDER are registered here too because the hash of a ReplaceSource goes through the sorted accessor. Round 3b: EQ-ALLPATHS registered here as well (a == that accepts early makes unequal values collide by definition). HASH-IN-EQ registered here as well. Round 8: HASHCOVER all-paths clause - a compared field is fed to the hasher on every path; a path that skips it may only be selected by looking at that field itself.',
        technique='field-access-set comparison of Eq vs Hash cones; forbidden-callee scan over resolved callees',
        design_ref='§5 C20'),
    'C12': dict(
        category='other',
        text='Static, exhaustive over the tables: the encoder alphabet constant equals the source-map v3 / RFC 4648 base64 '
             'alphabet, the 256-entry decoder table is its exact inverse with two distinct separator codes and one invalid code '
             '(TABLES, const-evaluated by the compiler, 320 entries); every byte any writer can put into an encoder buffer is a '
             'base64 digit, "," or ";" (ALPHABET, sound over-approximation over all writers incl. helper functions and closures). '
             'NOT decided: VLQ arithmetic, relative-field state, skip rules, the line-only encoder, round-trip equality. Added: LINE-RESET — the decoder resets the running column whenever it advances the line, the full encoder resets its column state whenever it writes a semicolon. Round 3: ENC-FIRST-MAPPED (the line-only encoder takes state from a segment\'s line only when the segment is mapped). Round 4: ENC-DEDUP (the "same original, skip" shortcut compares every per-segment state it records), ENC-OMIT (a tracked field is written as a delta or skipped only after the equality test with the state: no constant digits for an uncompared field), ENCODER-TOTAL (no arithmetic panic in the encoders). Round 6: VLQ-TERMINATED — path-sensitive replay of one loop iteration of the VLQ writer from the loop-head facts: a digit that can be the last one before the writer returns is < 32, a digit followed by another is >= 32. DECODER-WIDTH — the accumulator of the reader is at least 35 bits wide and the overflow guard skips a digit only beyond position 30 (all 7 digits of a 32-bit field are kept).',
        technique='compiler const-evaluation of the codec tables + constant byte-set dataflow into the encoder buffers; zone-domain abstract interpretation of the encoder / decoder arithmetic; dominator / path rules over encoder state fields',
        design_ref='§5 C12'),
    'C15': dict(
        category='other',
        text='Static: the key names the derived serializer of SourceMap writes are exactly the key names the raw-document reader '
             'accepts (plus constant "version"), each bound to its namesake field (JSON-NAMES, read from the derived impls\' MIR '
             'and FIELDS constant), and through TryFrom every field is rebuilt from the raw field its own key is read into '
             '(JSON-FLOW) — so each field survives a round trip by name; several fields share a type, so a swap would compile. '
             'NOT decided: escaping, parser totality, value equality after the round trip (simd-json/serde behaviour). Added: Option fields are skipped by Option::is_none only (JSON-SKIP: a present-but-empty value survives); the from_* cones touch no static / thread-local state (JSON-PURE). Round 3: raw fields of one type are converted by one call skeleton (JSON-SIBLING); IOERR for SourceMap::to_writer. Round 4: the raw fields feeding sources / sourcesContent / names have nullable entries (part of JSON-SIBLING). Round 5: JSON-ENTRIES — from_json / from_slice / from_reader hand the document to the JSON library whole (no loop, read or split of their own). IOERR\'s partial-write clause covers SourceMap::to_writer.',
        technique='constant/def-use extraction from derived Serialize/Deserialize MIR; field-flow through TryFrom',
        design_ref='§5 C15'),
    'C17': dict(
        category='other',
        text='Static, for every string: every panic-capable MIR terminator (index, add, shl, shr, neg asserts) and every call '
             'in the decode_mappings cone is discharged by a local range argument (constant index, zero-extended u8 < 256, '
             'dominating guard on the same place with no intervening write, constant shifts, per-input-byte counters), the cone '
             'has no recursion and its only loop consumes a slice iterator (DECODER-TOTAL; dev and, in thorough, release '
             'configuration); SourceMap::from_json/from_slice/from_reader add no panic site of their own and propagate every error '
             '(JSON-ENTRY; simd-json itself assumed total). NOT decided: panic-freedom of the streaming cone (≈250 arithmetic asserts, '
             'indexing on map-supplied lines/indices) — reading found real panics there for wild maps; no discharge analysis is in reach. Added: CLAMP — ReplaceSource::source()/rope() slice the inner text only with bounds clamped to its length (replacement positions beyond the end are in the documented domain). Round 4: INDEX-GUARDED — forward abstract interpretation of every body in the zone domain (difference constraints over integer locations and container lengths; guards, resize/growth loops, len()-derived indices, closure entry facts, widening) proves `index < len` for 52 of the 70 `container[usize]` accesses and MIR bounds checks of the crate; the other 18 are listed with the invariant they rely on (grouped by element type, counted) and any additional unproven access is reported. Decides the upper bound only (not `x - 1` underflow, not range slicing / char boundaries). ENCODER-TOTAL — every overflow-checked subtraction / addition / shift and every table index of the mappings encoders is discharged by the zone analysis (found F9: `current_original_line + 1` overflowed for a wild map, fixed as 7ac4a9a); one subtraction relies on the sorted-segments domain and is listed as assumed. VIEWS-TOTAL — the content views of ReplaceSource do no unchecked position arithmetic. After round 6: the zone engine is wrap-aware (a subtraction or addition counts as exact only when proven to stay inside the type; otherwise the result is tainted and any index built from it, also for checked get() accesses, is unproven) - found F10 and F11; POSITION-ADD - u32 arithmetic on the generated position a child reports to a composite is proven, widened or listed (found F12). Round 8: CLAMP-ORDER - every integer clamp(min, max) is called with limits proven ordered on every path (zone engine; the engine now also applies exit summaries of crate-local helper functions at their call sites). DECODER-TOTAL accepts a per-byte counter kept in a loop-free private helper that is called once per input byte. SLICE-ORDER - every byte_slice(start..end) call on a rope / source text (9 sites) has start <= end proven in the zone state or is one of two listed sites in ReplaceSource::stream_chunks; a function that forwards the range it was given is not a site. NOT decided there: end <= length of the text.',
        technique='interval/range discharge of MIR Assert terminators with guard provenance; forward abstract interpretation of MIR in the zone (difference-bound) domain with closure entry facts and helper exit summaries; loop/recursion census; panic-site census',
        design_ref='§5 C17'),
    'C07': dict(
        category='other',
        text='Static, for every tree: per source type the three byte views (buffer, size, to_writer) are computed from one basis — the same '
             'data fields, or the same-named view of the children, or the type\'s own source() — and so are the two text views '
             '(source, rope); wrappers forward each view to the same view of the wrapped source (DELEG); no to_writer body drops, unwraps or '
             'ignores a writer error: each io::Result is returned or propagated with `?` (IOERR). NOT decided: that rope() renders to source(), '
             'concatenation order, lossy decoding, the prefix property of a failed write. Added: writes go to the caller\'s writer or to an adapter with a propagated post-dominating flush (IOERR-SINK); ReplaceSource\'s two splice implementations agree on their position skeleton (SIBLING-SPLICE). Round 3: MEMO-RESET (a memo cell is reset by whoever mutates the data it was computed from). Round 6: IOERR also requires that the byte count of a partial-write call (Write::write / write_vectored) is used; MEMO registered here (all initialisers of a memoised view agree).',
        technique='view-basis comparison (field-access sets + resolved trait callees per view) and def-use of call results on MIR',
        design_ref='§5 C07'),
    'C13': dict(
        category='other',
        text='Static: the structural core of "boxing / caching / a single-child concat / an empty ReplaceSource.map behave exactly like the '
             'wrapped source": BoxSource (6 Source methods + stream_chunks) and CachedSource (5 content views) make exactly one Source '
             'call, the same-named method on the wrapped object with their own parameters in order, and return its result; ConcatSource\'s '
             'single-child fast paths and ReplaceSource::map forward likewise (DELEG D3). NOT decided: attribution equality of regrouped '
             'trees, closing segments through boxed concats, empty-source neutrality. Added: STICKY (empty children cannot swallow a pending close) and ENCODE-ALL (the map recorded while streaming a CachedSource is the full map). Round 4: FORWARD-ALL — ConcatSource forwards every child notification on every path: a nested / cached composite child attributes like the flat concatenation (defect fixed as 988c728). IDX registered here as well (wrappers translate name / source indices, never forward them raw).',
        technique='forwarding check over resolved trait callees, argument provenance and result flow on MIR',
        design_ref='§5 C13'),
    'C19': dict(
        category='other',
        text='Static, per unsafe site (inventory taken from the compiler on every run: calls of unsafe fns, lifetime transmutes, raw '
             'derefs, unsafe impls, unsafe blocks — 15 operations today): each operation is classified and its class obligation discharged '
             'where it sits — from_utf8_unchecked only on encoder buffers whose every writer provably writes ASCII (ALPHABET); '
             'lifetime-extending transmutes only of an entry of the write-once map cache (CACHE-BORROW + WRITEONCE) or of an element of the '
             'Freeze replacement list reached through a &self accessor (FROZEN-BORROW + W-MUT); unchecked indexing of the piece vector '
             'dominated by a non-empty check (NONEMPTY); unchecked str slicing only inside `unsafe fn`, whose only safe caller takes both '
             'bounds from the char_indices table or the text length (UNCHECKED-CALLERS + witnesses that the trait is private and the '
             'inherent method is `unsafe`); no hand-written unsafe impl; an unclassified unsafe operation is reported (fail-closed). '
             'NOT decided (undischarged, stated in evidence): that binary-search results index the right piece, that table entries are ordered '
             'char boundaries, schedules. Round 3b: RANGE-VALIDATED — a safe function that indexes the piece vector unchecked validates the requested range first, for every present/absent combination of bounds (directly or in a validator whose error is propagated). Round 8: PREFIX-SUM - every (piece, offset) pair built for a rope chunk vector stores 0, a total of the vector it is appended to, or a running accumulator whose next update adds exactly the length of the stored piece; existing pairs are not copied verbatim into a vector that already holds one. Offsets of any other form are reported as unrecognised and not decided. (These offsets are what byte_slice_unchecked uses to pick and cut pieces.)',
        technique='unsafe-operation inventory from MIR/HIR + per-class provenance / dominance / constant-byte-set rules + compile-fail witnesses; symbolic length matching of rope offset accumulators',
        design_ref='§5 C19'),
    'C01': dict(
        category='other',
        text='Static, for every tree and input: sentence 2 of the property — "every chunk delivered to a caller outside the crate carries '
             'its text". Conditional constant propagation over MIR under the assumption final_source = false, per StreamChunks impl and for '
             'stream_chunks_default, through all crate-local callees and closures (shared boolean cells included): every reachable call of a '
             'caller-supplied chunk callback passes Some(..), a `then_some` whose condition evaluates to true, or a chunk forwarded from a '
             'stream that was itself requested with final_source = false; text-less emissions are proved unreachable (TEXT). A MapOptions with '
             'final_source != false exists only as a by-reference temporary of a stream call (OPTS-LIT) and cannot be built outside the crate '
             '(W-OPTS compile-fail witness). NOT decided: sentence 1 (concatenated chunk text equals source()). Added after the independent breakage round: source() and rope() of ReplaceSource slice the inner text with the same normalised position skeleton (SIBLING-SPLICE) — a necessary condition of sentence 1 for cached replays, which re-split rope(). Round 8: CURSOR-FORWARD - the column cursor of the source-map text splitter (the start of every WithIndices substring) is only ever reset to 0 at a line start or overwritten with a value the zone state proves >= the cursor, so no text is delivered twice when a map names columns out of order (defect F13 found and fixed). Decides that clause only, not that every character is delivered.',
        technique='SCCP-style conditional constant propagation on MIR with closure/cell linking + escape check + compile-fail witness; zone-domain abstract interpretation of the text splitter cursor; sibling cross-check of the splice loops',
        design_ref='§5 C01'),
    'C04': dict(
        category='other',
        text='Static: the leaves the property rests on — every mapping an OriginalSource emits is the identity (original line/column are '
             'the very values reported as generated line/column, or both 0; source index 0; no name) and it announces exactly (0, its name '
             'field, Some(its own text)), field roles taken from the public constructor (IDENT). NOT decided: provenance through '
             'Concat/Replace/Cached, statement-start resolution, columns=false attribution. Added: ConcatSource\'s pending-close flag is sticky (cleared only after a test that found it set, otherwise OR-carried), so an empty child cannot swallow the segment that un-maps following raw text (STICKY). Still NOT decided: position arithmetic of ReplaceSource\'s generated-end info (seeded C04-m2 is not detected). Round 4: FORWARD-ALL — no path through ConcatSource\'s chunk handler swallows a child\'s notification (found the closing-position defect of nested composites in final-source mode, fixed as 988c728). ENC-OMIT — the line-only encoder emits its constant "same file, next line" form only after comparing the file. SIBLING-SPLICE registered here as well (a cached ReplaceSource is replayed from rope()). Round 8: PREFIX-SUM - every (piece, offset) pair built for a rope chunk vector stores 0, a total of the vector it is appended to, or a running accumulator whose next update adds exactly the length of the stored piece; existing pairs are not copied verbatim into a vector that already holds one. Offsets of any other form are reported as unrecognised and not decided.',
        technique='def-use equality of aggregate operands on MIR; post-dominator / path rules on forwarding and encoder state; symbolic length matching of rope offset accumulators',
        design_ref='§5 C04'),
    'C06': dict(
        category='other',
        text='Static, for every child/inner source: composites emit only indices of the numbering they announce — per index kind a composite '
             'either forwards the child numbering unchanged or renumbers through its tables, and every OriginalLocation it builds takes the index '
             'from the matching origin; a child-local index never leaks into a renumbered space (IDX: closure-, table- and adaptor-aware origin '
             'analysis); ReplaceSource advances the original column only under the content check (ADVANCE). NOT decided: positions, that the '
             'translated entry is the right one beyond its numbering, the amount of the advance. Added: the guard\'s verdict is the content check\'s own result for that site, not a remembered one (ADVANCE freshness); a chunk delivered with the child\'s own location object counts as child-local for both index kinds (IDX forwarded). Round 4: FORWARD-ALL — ConcatSource forwards every child notification (or records a pending close) on every path. STICKY registered here as well (an empty child must not clear the pending close). TEE-FORWARD registered here as well. COLLECTOR-SIBLING registered here as well. Round 8: ALLOC-DEDUP - a fresh index is allocated (len() of a de-duplication map inserted into it) only on the miss edge of a lookup in that map, so re-inserting a present key cannot make the next len() repeat an announced index. Round 8: PREFIX-DIRECTION - where recorded original content (a WithIndices substring) is compared with streamed text by starts_with, the recorded content is the haystack.',
        technique='index-space origin (taint-style) dataflow over MIR expression trees with closure capture and table summaries; guard provenance',
        design_ref='§5 C06'),
    'C08': dict(
        category='other',
        text='Static: all four (columns, final) streaming variants of a map apply sourceRoot, announce the enumeration index of the very '
             'iteration and the content stored under it (ROOT); announcement loops complete before any point that can deliver a mapped chunk, '
             'and variants that never announce names overwrite the name index with None before every emission (EAGER); the dispatch reaches a '
             'text-carrying variant whenever final_source = false (TEXT). NOT decided: the segment walk (active-mapping state machine, cut-offs). Added: the line-only variants advance their per-line cursor from a segment only where the segment is known to have an original (FIRST-MAPPED). Still NOT decided: the active-mapping state machine of the column variants (seeded C08-m2 is not detected). Round 3b: ROOT also requires sourceRoot to be applied verbatim (no normalisation calls on the root string). Round 4: ENC-DEDUP — re-encoding by an enclosing source does not swallow a segment that differs in name.',
        technique='sibling cross-check of announcer call arguments, loop/dominator ordering, SCCP on MIR',
        design_ref='§5 C08'),
    'C09': dict(
        category='other',
        text='Static: the index-table discipline of the combined-map combinator — both index kinds are renumbered and both emitting '
             'aggregates take source/name indices only from the announced (global) numbering or tables filled from it; outer/inner local '
             'indices are used as keys only (IDX); each of its six de-duplication inserts stores len() and is followed by the announcement of '
             'that value (PAIR). NOT decided: the binary search, identity-column adjustment, name matching, fallback semantics. Added: an announced fresh index is paired with an insertion into the same de-duplication map (PAIR converse); outer-name lookups that can reach an inner-mapped location are dominated by the name-vs-original-text comparison (NAMECHECK). Round 3: KEYSPACE and SIDES (translation tables are keyed in one numbering; tables handed to one helper belong to one child stream). Round 4: CTOR-VERBATIM — SourceMapSource constructors store the remove_original_source request as given. Round 5: CTOR-VERBATIM covers every constructor field (value, name, maps, original source), not only the removal flag. Round 6: PREFILL — every lazily resolved translation table (read with a negative sentinel) receives an explicit entry for every announced key on every path of the announcement callback. Round 7: COMBINE-WHEN-INNER - the choice between combined and plain streaming tests the presence of inner_source_map itself. Round 8: ALLOC-DEDUP - a fresh index is allocated (len() of a de-duplication map inserted into it) only on the miss edge of a lookup in that map, so re-inserting a present key cannot make the next len() repeat an announced index. Round 8: the removal flag handed to the combinator is the stored remove_original_source field itself (flag clause of COMBINE-WHEN-INNER).',
        technique='index-space origin dataflow + post-dominator pairing on MIR',
        design_ref='§5 C09'),
    'C11': dict(
        category='other',
        text='Static: in every chunk stream each new index is dense (len() of the de-duplication map) and announced with that same value '
             'on every path after insertion (PAIR, 10 sites); eager announcers complete before delivery and never-announced names are never '
             'emitted (EAGER); indices used come from the announced numbering (IDX); the mappings string consists only of base64 digits, "," '
             'and ";" (ALPHABET, sound for that clause). NOT decided: strictly increasing positions, lines >= 1, positions inside the text. Added: PAIR converse and IDX forwarded (see C09/C06). Still NOT decided: position arithmetic (seeded C11-m1 is not detected). Round 5: TEE-FORWARD — the cache-filling tee forwards every chunk / source / name notification to the caller on every path. PREFILL registered here as well (an unfilled gap reads as index 0, an index inside the tables but of the wrong file). Round 8: ALLOC-DEDUP - a fresh index is allocated (len() of a de-duplication map inserted into it) only on the miss edge of a lookup in that map, so re-inserting a present key cannot make the next len() repeat an announced index. Round 8: PREFIX-SUM - every (piece, offset) pair built for a rope chunk vector stores 0, a total of the vector it is appended to, or a running accumulator whose next update adds exactly the length of the stored piece; existing pairs are not copied verbatim into a vector that already holds one. Offsets of any other form are reported as unrecognised and not decided.',
        technique='post-dominator pairing, loop ordering, origin dataflow, constant byte-set dataflow on MIR; lookup-miss edge dominance; symbolic length matching of rope offset accumulators',
        design_ref='§5 C11'),
}

NOT_APPLICABLE = {
    'C02': 'line/column bookkeeping is arithmetic over the runtime text (six update paths of a running offset state '
           'machine); no sound static argument in reach bounds it and no necessary structural clause exists that is '
           'not a frozen source fragment',
    'C03': 'agreement, for every tree and position, of the final-source path feeding the encoder with the normal '
           'streaming path: needs executing both paths; no shape-of-code clause',
    'C16': 'equivalence of ~20 rope observers to the flat string is functional correctness of loops over pieces and '
           'binary searches; the representation invariants it would rest on are not maintained by the code today, so '
           'no invariant check is a necessary condition (the one memory-safety consequence is claimed under C19)',
}

PENDING = 'static rule set for this property is not built yet in this tree (see DESIGN §8 build order)'

# ---- round 9 additions (appended to the texts above so that MANIFEST names every registered rule's clause)
_R9_LAST_PIECE = (' Round 9: LAST-PIECE - while an observer decides by the text of the last piece of a rope (ends_with, asked by '
                  'get_generated_source_info and the replay of a cached source), every function that grows a rope in place stores a fresh '
                  'piece as the last one only under a test that it is not empty (pieces taken over from another rope are covered by '
                  'induction); not decided: ropes built by slicing / lines().')
_R9_NAME_SIBLING = (' Round 9: NAME-SIBLING - the pieces into which a composite cuts one child chunk, each forwarded with the child\'s own '
                    'original position, pass the child\'s name index through the same conditions (an extra filter on one piece makes an '
                    'empty insertion inside a named chunk change which characters carry the name).')
_R9_FIELD_RESET = (' Round 9: VLQ-FIELD-RESET - the base64-VLQ reader advances its field counter only on paths that reset the shift position '
                   '(and the accumulator) to 0 before the next digit is read, or that are taken only when the shift position is 0: redundant '
                   'continuation digits of one field ("gA" is a legal zero) cannot leak into the next field.')
_R9_POSITION = (' Round 9: the input assumption POSITION-ADD listed for ReplaceSource\'s three column additions ("positions of a source '
                'streamed with text are real") was refuted by an independent finding on the unchanged tree (an inner ReplaceSource hands '
                'out a column wrapped below zero); the assumption was removed, the rule then reported the three sites, defect F14 fixed in '
                '/repo 152bcc2 (wrapping addition).')
for _p, _t in (('C04', _R9_LAST_PIECE), ('C10', _R9_LAST_PIECE), ('C13', _R9_LAST_PIECE), ('C13', _R9_NAME_SIBLING),
               ('C06', _R9_NAME_SIBLING), ('C12', _R9_FIELD_RESET), ('C08', _R9_FIELD_RESET), ('C17', _R9_POSITION)):
    CLAIMS[_p]['text'] += _t
for _p, _t in (('C04', '; non-emptiness dominance for in-place rope growth'), ('C10', '; non-emptiness dominance for in-place rope growth'),
               ('C13', '; non-emptiness dominance for in-place rope growth; sibling agreement of name conditions'),
               ('C06', '; sibling agreement of name conditions'), ('C12', '; must-reset path analysis of the VLQ reader state'),
               ('C08', '; must-reset path analysis of the VLQ reader state')):
    CLAIMS[_p]['technique'] += _t
CLAIMS['C17']['text'] += (' Round 9: LOOKUP-UNWRAP - inside the callbacks of a composite streamer the result of a table lookup (`get` on a '
                          'LinearMap / HashMap / slice, keyed by an index a supplied map uses) is unwrapped only where the Option was given '
                          'a value on the miss path (get-or-insert) or under the test of the announced-key sentinel of the companion table; '
                          'the one site without either was defect F15 (fixed in /repo). Other unwrap / expect calls in the streaming cone '
                          'are not decided.')
CLAIMS['C17']['technique'] += '; dominance of table-lookup unwraps by fill / sentinel tests'
CLAIMS['C08']['text'] += (' Round 9: ACTIVE-CLEARED - the splitter that remembers an active mapping resets the state it tests before '
                          'delivering on both outcomes of the "is the text empty" test (a zero-width segment must not stay active past '
                          'the segment that closes it).')
CLAIMS['C08']['technique'] += '; must-clear path analysis of the active-mapping state'
CLAIMS['C15']['text'] += (' Round 9: JSON-SKIP also decides the skip predicate of the list-valued field (sourcesContent): it must be '
                          'recognisably "every entry is empty" (`iter().all(is_empty)` / `!iter().any(!is_empty)`, optionally after an '
                          'early true for the empty list); an existential or first-entry test drops content on the round trip; any other '
                          'shape is reported as an unrecognised idiom (fail-closed, DESIGN 7).')
CLAIMS['C19']['text'] += (' Round 9: UNCHECKED-SIBLING - the range-unchecked slicer of the rope searches, picks and cuts pieces by the same '
                          'expressions as its checked sibling (piece searches with receiver and comparator, miss adjustment, index of '
                          'every piece access, range of every cut); decided as sibling agreement, not as correctness of either.')
CLAIMS['C19']['technique'] += '; sibling agreement of normalised search / cut expressions between the checked and the unchecked slicer'

_R9_COND = (' (VLQ-FIELD-RESET, ACTIVE-CLEARED and NAME-SIBLING are conditional rules: armed while the construct has a shape the recogniser '
            'knows, reported as not decided otherwise; their seeded canaries in the thorough tier exclude a vacuous pass on the current tree.)')
for _p in ('C06', 'C08', 'C12', 'C13'):
    CLAIMS[_p]['text'] += _R9_COND

_R10_TAGGED = (' Round 10: TAGGED-OFFSET - the per-line column correction of ReplaceSource\'s streamer is a tagged value (value cell, tag cell), '
               'found by role: "offset(line) = value if line == tag else 0". Decided for every path: the value is read (also inside `+=`) '
               'only where `tag == line` is known (under the true edge of that test with neither side written since, or right after the pair '
               'was re-pointed); the tag is never re-pointed while the value is carried over, and the value is never overwritten for a new '
               'line without re-pointing the tag; the tag is compared only with lines in the coordinates it is assigned in (they depend on '
               'the same line-offset cell); both arms of every tagged update add the same amount after linear normalisation, and an update '
               'that exists only on the arm where the tag already names the line is reported (defect F16 found on the unchanged tree - a '
               'deletion that joins two lines lost the column of the kept prefix - and fixed in /repo c8354f2). Conditional rule: reported as '
               'not decided when no such pair of cells exists in the streamer. Decides this bookkeeping discipline only, NOT that the '
               'amounts themselves are right.')
for _p in ('C04', 'C11'):
    CLAIMS[_p]['text'] += _R10_TAGGED
    CLAIMS[_p]['technique'] += '; guard-dominance, pairing and arm-agreement analysis of the tagged column-correction cells (MIR, closure-captured cells)'

CLAIMS['C06']['text'] += (' Round 10: PREFIX-EXHAUST - Rope::starts_with, the prefix test ReplaceSource uses to decide whether the original column '
                          'of a cut chunk is advanced, returns the constant true on every path where the pieces of its ARGUMENT are exhausted '
                          'without a mismatch (not a test of what is left of the receiver, which is equality): the decision does not depend on '
                          'how the chunk text is divided into rope pieces (defect F18 found on the unchanged tree and fixed in /repo 1fb11ee). '
                          'Conditional rule; decides that clause only, not the comparison of the pieces.')
CLAIMS['C06']['technique'] += '; exit-value analysis of the argument-exhausted paths of the rope prefix test'
CLAIMS['C17']['text'] += (' Round 10: the assumption INDEX-GUARDED listed for CharIndices::next ("the last piece of a rope is never empty") was '
                          'refuted by an independent finding on the unchanged tree; it was removed, the rule reported the site (4 > 3), defect '
                          'F17 fixed in /repo 9f4bb8a (the engine proves the re-checked bound). CONTENT-UNWRAP - inside a composite streamer the '
                          'content parameter of a source-announcement callback (Option<Rope>: a supplied map may list a source without '
                          'sourcesContent) is unwrapped only where a forward may-be-None analysis of the callback shows it was assigned Some(..) '
                          'or tested to be Some (defect F19 found on the unchanged tree and fixed in /repo 9e18ce2). NOT decided: allocation '
                          'size (a wild inner name / source index makes LinearMap::insert allocate index + 1 slots - seen, DESIGN 6).')
CLAIMS['C17']['technique'] += '; forward may-be-None analysis of announced-content parameters'
CLAIMS['C14']['text'] += (' Round 10: FILL-AGREE - every first-writer of CachedSource\'s map cache stores the value inner.map(options) returned '
                          '(one producer per key), so that map() of an unchanged value does not depend on which call filled the cache. The '
                          'unchanged tree violates it (stream_chunks stores the map re-encoded from the streamed chunks under the same key): '
                          'genuine defect F20, reproduced against the real code, recorded as an OPEN known finding (known_findings.json) '
                          'because the repair is a design decision, not a small patch; the check prints KNOWN-FINDING for exactly that key and '
                          'reports any other producer.')
CLAIMS['C14']['technique'] += '; producer agreement of the first-writers of the map cache'
CLAIMS['C20']['text'] += (' Round 10: HASH-FRAMED - a hand-written Hash impl that feeds a variable number of children whose own hash has variable '
                          'length (dyn Source / Box) also feeds the element count or hashes the vector as a whole. The unchanged tree violates it '
                          '(ConcatSource::hash): genuine defect F21 - two trees with different text feed every hasher the identical call '
                          'sequence - reproduced against the real code and recorded as an OPEN known finding, because the repair moves the '
                          'constant the pinned test hash_available asserts; the check prints KNOWN-FINDING for exactly that key.')
CLAIMS['C20']['technique'] += '; framing check of child-list loops in hand-written Hash impls'

CLAIMS['C06']['text'] += (' Round 10: PAIR registered here as well - every index a child announces for a name is entered into the translation table '
                          'on every path (a translation that lands only in the vacant arm of an entry match loses the name of an already known '
                          'string).')
CLAIMS['C07']['text'] += (' Round 10: PREFIX-SUM registered here as well - ReplaceSource::rope() slices its inner rope by the stored piece offsets, '
                          'so rope() renders to source() only if every (piece, offset) pair stores a running total of the piece lengths.')
CLAIMS['C07']['technique'] += '; running-total analysis of rope piece offsets'
for _p in ('C05', 'C17'):
    CLAIMS[_p]['text'] += (' Round 10: CLAMP covers every content view of ReplaceSource (source, rope, buffer, size, to_writer) and byte-slice '
                           'ranges as well as str ranges: a view that re-implements the splice loop instead of deriving from source() is held to '
                           'the same clamping.')
CLAIMS['C11']['text'] += (' Round 10: VLQ-TERMINATED registered here as well - every VLQ field the encoders write ends with a digit whose continuation '
                          'bit is clear, so the mappings string decodes into the segments that were encoded (a field that swallows its successor '
                          'yields indices and positions nobody announced).')
CLAIMS['C20']['text'] += (' Round 10: the all-paths clause of HASHCOVER counts as a feed only a call that also receives the hasher, and lets a path '
                          'skip the feed only where the choice sends a single value of the field down that path (its discriminant, is_empty / '
                          'is_none / is_some of it); any other predicate over the field sends a class of values there, which then hash alike.')
