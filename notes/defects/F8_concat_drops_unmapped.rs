// Demonstration for defect F8 (fixed in /repo 988c728): place under tests/ ; fails on 1ed41c8, passes on 988c728.
use rspack_sources::*;
fn m(s: &dyn Source) -> String {
  s.map(&MapOptions::default()).map(|m| m.mappings().to_string()).unwrap_or_default()
}
#[test]
fn nested_concat_attributes_like_flat() {
  let inner = ConcatSource::new([OriginalSource::new("a", "a.js").boxed(), RawStringSource::from("x").boxed()]);
  let flat = ConcatSource::new([
    OriginalSource::new("a", "a.js").boxed(),
    RawStringSource::from("x").boxed(),
    OriginalSource::new("b", "b.js").boxed(),
  ]);
  let nested = ConcatSource::new([inner.clone().boxed(), OriginalSource::new("b", "b.js").boxed()]);
  let cached = ConcatSource::new([CachedSource::new(inner.clone()).boxed(), OriginalSource::new("b", "b.js").boxed()]);
  assert_eq!(m(&flat), "AAAA,C,CCAA");
  assert_eq!(m(&nested), m(&flat)); // was "AAAA,ECAA": the raw "x" attributed to a.js
  assert_eq!(m(&cached), m(&flat));
}
