#!/usr/bin/env python3
"""Regenerate the `seeded-*` entries of canaries/index.json from seeded/*/meta.json (`detected_by`, written by tools/run_seeded.py):
one canary per (seeded change, rule that fires on it), expecting a finding of that rule under every property it fired for.
Detections that consist only of `:anchor` / `:floor` findings (the rule lost its construct) are not turned into canaries."""
import json, os
V = os.path.dirname(os.path.dirname(os.path.abspath(__file__)))
SD = os.path.join(V, 'seeded')
p = os.path.join(V, 'canaries', 'index.json')
idx = [c for c in json.load(open(p)) if not c['name'].startswith('seeded-')]
n = 0
for sid in sorted(os.listdir(SD)):
    mp = os.path.join(SD, sid, 'meta.json')
    if not os.path.isfile(mp):
        continue
    db = json.load(open(mp)).get('detected_by') or {}
    rules = {}
    for prop, keys in db.items():
        if prop.startswith('_'):
            continue
        for k in keys:
            if k.endswith(':anchor') or k.endswith(':floor'):
                continue
            rules.setdefault(k.split(':')[0], set()).add(prop)
    for rule, props in sorted(rules.items()):
        idx.append({'name': 'seeded-%s-%s' % (sid, rule), 'file': '../seeded/%s/patch.diff' % sid, 'properties': sorted(props),
                    'rule': rule, 'expect': rule + ':'})
        n += 1
json.dump(idx, open(p, 'w'), indent=1)
print('%d canaries, %d of them seeded-*' % (len(idx), n))
