// Defect F14 (C17): ReplaceSource over ReplaceSource over a SourceMapSource with multi-byte text panics
// "attempt to add with overflow" in overflow-checked builds (src/replace_source.rs, `mapping.generated_column += chunk_pos`).
// The inner ReplaceSource corrects columns (counted in chars by the splitter) with byte lengths; the correction goes negative and
// `as u32` wraps it; the outer ReplaceSource then adds its chunk position to the wrapped value with a checked `+=`.
// Release builds wrap and deliver the right text.  Found by the round-9 sub-agent for C01 on the clean tree 17e618d.
use rspack_sources::{stream_chunks::StreamChunks, *};

#[test]
fn replace_over_replace_over_multibyte_source_map_source_does_not_panic() {
  let map = SourceMap::new(
    "AAAA,GAAG",
    vec!["s.js".to_string()],
    vec!["abcdef".to_string()],
    Vec::<String>::new(),
  );
  let sms = SourceMapSource::new(WithoutOriginalOptions {
    value: "🤪🤪abcdefghij",
    name: "s.js",
    source_map: map,
  });
  let mut inner = ReplaceSource::new(sms);
  inner.replace(0, 9, "x", None);
  let mut outer = ReplaceSource::new(inner);
  outer.replace(0, 8, "", None);
  let mut text = String::new();
  outer.stream_chunks(
    &MapOptions::default(),
    &mut |c, _| text.push_str(&c.unwrap().to_string()),
    &mut |_, _, _| {},
    &mut |_, _| {},
  );
  assert_eq!(text, outer.source());
}
