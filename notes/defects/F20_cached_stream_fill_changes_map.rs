// F20 (C14, OPEN - recorded, not repaired): CachedSource::stream_chunks fills the map cache, under the caller's options, with a map
// re-encoded from the streamed chunks; CachedSource::map fills the same key with inner.map(options).  For a wrapped SourceMapSource
// without inner map (map() returns the stored map verbatim) the two differ, so map() of equal values depends on call history.
// FAILS on the current tree (known finding FILL-AGREE:...:producer:stream_and_get_source_and_map).
// Found independently by the round-10 C14, C10 and C18 sub-agents.
use rspack_sources::stream_chunks::StreamChunks;
use rspack_sources::{CachedSource, MapOptions, Source, SourceMap, SourceMapSource, WithoutOriginalOptions};

fn module() -> SourceMapSource {
  let mut source_map = SourceMap::new("AAAA", vec!["a.ts".to_string()], vec!["x".to_string()], Vec::<String>::new());
  source_map.set_file(Some("a.js"));
  SourceMapSource::new(WithoutOriginalOptions { value: "x", name: "a.js", source_map })
}

#[test]
fn streaming_a_cached_source_changes_its_map() {
  let options = MapOptions::default();
  let (a, b) = (CachedSource::new(module()), CachedSource::new(module()));
  a.stream_chunks(&options, &mut |_, _| {}, &mut |_, _, _| {}, &mut |_, _| {});
  assert!(a == b);
  assert_eq!(a.map(&options), b.map(&options)); // fails: a's map has lost "file":"a.js"
}
