"""Rule framework: results, findings, context."""
import os
import re
import tempfile
import shutil

from . import build
from .ir import Facts


class Finding:
    def __init__(self, rule, key, site, function, why, **extra):
        self.rule = rule
        self.key = key            # stable: rule + resolved def paths + field/callee names (no line numbers)
        self.site = site          # file:line:col (diagnostic only)
        self.function = function
        self.why = why
        self.extra = extra

    def to_json(self):
        d = {'rule': self.rule, 'key': self.key, 'site': self.site, 'function': self.function, 'why': self.why}
        d.update(self.extra)
        return d


class RuleResult:
    def __init__(self, rule, clause):
        self.rule = rule
        self.clause = clause          # the clause of the property this rule decides
        self.sites = []               # instances examined: dicts {instance, site, verdict, ...}
        self.findings = []
        self.infos = []
        self.floor = None             # minimum number of instances confirmed by hand on the pinned tree
        self.sound = False            # True when the rule is sound+complete for its clause (proof-level)
        self.assumptions = []

    def site(self, instance, site, verdict, **kw):
        d = {'rule': self.rule, 'instance': instance, 'site': site, 'verdict': verdict}
        d.update(kw)
        self.sites.append(d)
        return d

    def violation(self, key, site, function, why, **extra):
        f = Finding(self.rule, self.rule + ':' + key, site, function, why, **extra)
        if any(g.key == f.key for g in self.findings):
            return f  # one report per construct
        self.findings.append(f)
        return f

    def info(self, text):
        self.infos.append(text)

    def check_floor(self, where='(crate)'):
        """fail closed when the rule saw fewer instances than were counted on the pinned tree"""
        if self.floor is not None and len(self.sites) < self.floor:
            self.violation('floor', where, where,
                           'rule examined %d instances, fewer than the %d confirmed by hand on the pinned tree: '
                           'an anchor moved or the rule went blind (fail-closed)' % (len(self.sites), self.floor),
                           reason='floor')

    @property
    def obligations(self):
        return len(self.sites)

    @property
    def discharged(self):
        return sum(1 for s in self.sites if s['verdict'] == 'ok')


class Ctx:
    """One analysis session over a repo checkout (facts per configuration, witnesses)."""

    def __init__(self, repo='/repo'):
        self.repo = repo
        self.tmp = tempfile.mkdtemp(prefix='rsv-')
        self._an = {}
        self._facts = {}

    def analysis(self, config='dev'):
        if config not in self._an:
            out = os.path.join(self.tmp, config)
            os.makedirs(out, exist_ok=True)
            self._an[config] = build.analyse(self.repo, config, out)
        return self._an[config]

    def facts(self, config='dev'):
        if config not in self._facts:
            self._facts[config] = Facts(self.analysis(config).facts_path)
        return self._facts[config]

    def witness(self, src):
        an = self.analysis('dev')
        return build.compile_witness(src, an, self.tmp)

    def close(self):
        shutil.rmtree(self.tmp, ignore_errors=True)


def safe_name(key):
    return re.sub(r'[^A-Za-z0-9_.-]+', '_', key)[:180]


def short_fn(path):
    return path
