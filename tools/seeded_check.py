#!/usr/bin/env python3
"""Run the registered checks against a seeded breaking change: apply <patch> to /repo, run bin/check for the given
properties (default: all claimed), print the findings, and ALWAYS restore /repo (git checkout -- .).
usage: tools/seeded_check.py <patch.diff> [Cxx ...]"""
import json, os, subprocess, sys
V = os.path.dirname(os.path.dirname(os.path.abspath(__file__)))
patch = os.path.abspath(sys.argv[1])
props = sys.argv[2:] or [c['property_id'] for c in json.load(open(os.path.join(V, 'MANIFEST.json')))['checks']]
st = subprocess.run(['git', '-C', '/repo', 'status', '--porcelain', '--untracked-files=no'], capture_output=True, text=True).stdout
if st.strip():
    sys.exit('refusing: /repo has local modifications:\n' + st)
r = subprocess.run(['git', '-C', '/repo', 'apply', patch], capture_output=True, text=True)
if r.returncode != 0:
    sys.exit('patch does not apply: ' + r.stderr)
hits = {}
try:
    for p in props:
        r = subprocess.run([os.path.join(V, 'bin', 'check'), p, '--tier', 'quick', '--no-evidence'], capture_output=True, text=True)
        lines = [l for l in r.stdout.splitlines() if l.startswith('  ') and ' @ ' in l]
        if r.returncode == 1:
            hits[p] = [l.strip().split(' @ ')[0] for l in lines]
        elif r.returncode != 0:
            hits[p] = ['INFRA: ' + r.stdout[-300:]]
finally:
    subprocess.run(['git', '-C', '/repo', 'checkout', '--', '.'], check=True)
    subprocess.run(['rm', '-rf', os.path.join(V, 'reports')])
print(json.dumps(hits, indent=1))
