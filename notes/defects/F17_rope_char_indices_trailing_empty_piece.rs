// F17 (C17): CharIndices::next indexed the piece vector after skipping empty pieces without re-checking the bound.
// A rope whose LAST piece is empty (produced by slicing the rope of a nested concatenation) made it panic
// (index out of bounds, debug and release).  Fails on /repo c8354f2, passes after the fix.
// Found by the round-10 C17 sub-agent; it refuted the assumption INDEX-GUARDED had listed for this site
// ("the last piece is never empty"); with the assumption removed the rule reports Vec<(&str, usize)>:4>3.
use rspack_sources::{
  BoxSource, CachedSource, ConcatSource, MapOptions, OriginalSource, RawSource, ReplaceSource, Source, SourceExt,
};

#[test]
fn cached_replace_over_nested_concat_streams_without_panic() {
  let nested = CachedSource::new(ConcatSource::new([
    RawSource::from("cd").boxed(),
    RawSource::from("ef").boxed(),
  ]));
  let inner = ConcatSource::new([OriginalSource::new("ab", "a.js").boxed(), nested.boxed()]);
  let mut replaced = ReplaceSource::new(inner);
  replaced.replace(2, 6, "", None); // delete "cdef"
  let cached = CachedSource::new(replaced);
  assert_eq!(cached.source(), "ab");
  assert!(cached.map(&MapOptions::default()).is_some()); // fills the cache
  let mut outer = ReplaceSource::new(cached);
  outer.insert(0, "x", None);
  assert_eq!(outer.source(), "xab");
  let map = outer.map(&MapOptions::default()); // panicked: index out of bounds (rope.rs, CharIndices::next)
  assert!(map.is_some());
  let _: Option<BoxSource> = None;
}

#[test]
fn rope_api_alone() {
  let concat = ConcatSource::new([
    OriginalSource::new("ab", "a.js").boxed(),
    CachedSource::new(ConcatSource::new([RawSource::from("cd").boxed(), RawSource::from("ef").boxed()])).boxed(),
  ]);
  let rope = concat.rope();
  assert_eq!(rope.byte_slice(0..2).char_indices().count(), 2);
}
