// F19 (C17): a SourceMapSource with an inner source map but neither `original_source` nor a sourcesContent entry for the inner
// source in the outer map made stream_chunks / map() panic (`source_content.unwrap()` on None in the combined-map combinator).
// Fails on /repo 1fb11ee, passes after the fix.  Found by the round-10 C01 sub-agent; reported by CONTENT-UNWRAP.
use rspack_sources::stream_chunks::StreamChunks;
use rspack_sources::{MapOptions, Source, SourceMap, SourceMapSource, SourceMapSourceOptions};

fn subject() -> SourceMapSource {
  let outer = SourceMap::new("AAAA", vec!["inner.js".to_string()], Vec::<String>::new(), Vec::<String>::new());
  let inner = SourceMap::new("AAAA", vec!["orig.js".to_string()], Vec::<String>::new(), Vec::<String>::new());
  SourceMapSource::new(SourceMapSourceOptions {
    value: "x",
    name: "inner.js",
    source_map: outer,
    original_source: None,
    inner_source_map: Some(inner),
    remove_original_source: false,
  })
}

#[test]
fn streaming_returns_normally_and_reassembles() {
  let source = subject();
  for columns in [true, false] {
    let mut text = String::new();
    source.stream_chunks(
      &MapOptions::new(columns),
      &mut |chunk, _| text.push_str(&chunk.unwrap().to_string()),
      &mut |_, _, _| {},
      &mut |_, _| {},
    );
    assert_eq!(text, source.source());
  }
}

#[test]
fn map_returns_normally() {
  let source = subject();
  let map = source.map(&MapOptions::default()).expect("the outer map attributes the text");
  // without any inner text the inner map cannot be applied: the position stays attributed to the inner source itself
  assert_eq!(map.sources(), &["inner.js".to_string()]);
}
