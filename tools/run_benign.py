#!/usr/bin/env python3
"""Run every registered quick check against behaviour-preserving refactorings (negative controls): any finding is a
false alarm of the machinery.  Patches live in /verif/benign/*.diff.  Applies each to /repo and ALWAYS restores it.
usage: tools/run_benign.py [name ...]"""
import json, os, subprocess, sys
from concurrent.futures import ThreadPoolExecutor
V = os.path.dirname(os.path.dirname(os.path.abspath(__file__)))
BD = os.path.join(V, 'benign')
props = [c['property_id'] for c in json.load(open(os.path.join(V, 'MANIFEST.json')))['checks']]
names = sys.argv[1:] or sorted(f[:-5] for f in os.listdir(BD) if f.endswith('.diff'))


def check_all():
    """all properties' quick rules on /repo as it stands (one compilation, shared fact base)"""
    r = subprocess.run([sys.executable, '-m', 'rsv.check_all', '--repo', '/repo'], capture_output=True, text=True, cwd=V)
    try:
        return json.loads(r.stdout)
    except Exception:
        return {'_infra': ['check_all failed: ' + (r.stderr or r.stdout)[-300:]]}


st = subprocess.run(['git', '-C', '/repo', 'status', '--porcelain', '--untracked-files=no'], capture_output=True, text=True).stdout
if st.strip():
    sys.exit('refusing: /repo has local modifications:\n' + st)
res_path = os.path.join(BD, 'RESULTS.json')
results = json.load(open(res_path)) if os.path.exists(res_path) else {}
for n in names:
    r = subprocess.run(['git', '-C', '/repo', 'apply', os.path.join(BD, n + '.diff')], capture_output=True, text=True)
    if r.returncode != 0:
        results[n] = {'_error': 'patch does not apply'}
        print(n, 'does not apply')
        continue
    try:
        alarms = check_all()
    finally:
        subprocess.run(['git', '-C', '/repo', 'checkout', '--', '.'], check=True)
    results[n] = alarms
    print(n, 'SILENT' if not alarms else 'ALARM ' + json.dumps(alarms)[:600])
json.dump(results, open(res_path, 'w'), indent=1)
subprocess.run(['rm', '-rf', os.path.join(V, 'reports')])
