"""check <Cxx> --tier quick|thorough [--replay path] [--repo dir]

Decides the static clauses of one property on /repo's *current* working tree (rebuilt through the
compiler on every run), writes evidence/<id>.json and reports/<id>/*.json, prints VIOLATION /
KNOWN-FINDING lines.  Exit 0: held on everything examined; 1: violation; 2: infrastructure error.
"""
import argparse
import json
import os
import sys
import time
import traceback

from . import build, registry
from .anchors import AnchorMissing
from .core import Ctx, RuleResult, safe_name

VERIF = build.VERIF


def load_known():
    p = os.environ.get('RSV_KNOWN_FINDINGS') or os.path.join(VERIF, 'known_findings.json')
    if not os.path.exists(p):
        return {'open': [], 'fixed': []}
    with open(p) as f:
        return json.load(f)


def run_rules(prop, ctx, tier, config='dev'):
    results = []
    for module, fn, cfgs in registry.PROPERTY_RULES.get(prop, []):
        rule = registry.load(module, fn)
        try:
            res = rule(ctx) if config == 'dev' else rule(ctx, config=config)
        except AnchorMissing as e:
            res = RuleResult(fn.replace('rule_', '').upper().replace('_', '-'), '(anchor resolution)')
            res.violation('anchor', '(crate)', '(crate)',
                          'anchor missing: %s — the construct this rule inspects cannot be found, so the clause '
                          'cannot be shown to hold (fail-closed)' % e, reason='anchor')
        results.append(res)
    return results


def main(argv=None):
    ap = argparse.ArgumentParser()
    ap.add_argument('prop')
    ap.add_argument('--tier', default=os.environ.get('VERIF_TIER', 'quick'), choices=['quick', 'thorough'])
    ap.add_argument('--replay', default=None)
    ap.add_argument('--repo', default='/repo')
    ap.add_argument('--no-evidence', action='store_true')
    a = ap.parse_args(argv)
    prop = a.prop
    seed = int(os.environ.get('VERIF_SEED', '0') or 0)
    t0 = time.time()
    if prop not in registry.PROPERTY_RULES:
        print('property %s is not claimed (see MANIFEST.not_applicable)' % prop)
        return 2
    ctx = Ctx(a.repo)
    try:
        results = run_rules(prop, ctx, a.tier)
        extra = {}
        if a.tier == 'thorough':
            from . import thorough
            extra = thorough.run(prop, ctx, results)
        meta = ctx.facts().meta()
        nbodies = len(ctx.facts().body_list)
    except build.InfraError as e:
        print('INFRASTRUCTURE ERROR (no verdict): %s' % e)
        ctx.close()
        return 2
    except Exception:
        traceback.print_exc()
        print('INFRASTRUCTURE ERROR (checker crashed; no verdict)')
        ctx.close()
        return 2
    ctx.close()

    known = load_known()
    open_keys = {(k['property'], k['key']): k for k in known.get('open', [])}
    rep_dir = os.path.join(VERIF, 'reports', prop)
    os.makedirs(rep_dir, exist_ok=True)
    violations, known_hits = [], []
    replay_key = None
    if a.replay:
        try:
            with open(a.replay) as f:
                replay_key = json.load(f)['key']
        except Exception as e:
            print('cannot read replay file: %s' % e)
            return 2
    for res in results:
        for fnd in res.findings:
            if replay_key and fnd.key != replay_key:
                continue
            if (prop, fnd.key) in open_keys:
                known_hits.append(fnd)
            else:
                violations.append(fnd)
    for fnd in known_hits:
        print('KNOWN-FINDING: property=%s %s — %s [%s]' % (prop, fnd.key, fnd.why, fnd.site))
    for fnd in violations:
        path = os.path.join(rep_dir, safe_name(fnd.key) + '.json')
        d = fnd.to_json()
        d['property'] = prop
        d['replay_cmd'] = 'bin/check %s --replay %s' % (prop, path)
        with open(path, 'w') as f:
            json.dump(d, f, indent=1)
        print('  %s %s @ %s in %s: %s' % (fnd.rule, fnd.key, fnd.site, fnd.function, fnd.why))
        print('VIOLATION property=%s replay=%s' % (prop, path))
    for res in results:
        for i in res.infos:
            print('INFO %s: %s' % (res.rule, i))

    # ---- evidence
    wall = time.time() - t0
    sites = [s for res in results for s in res.sites]
    obligations = len(sites)
    discharged = sum(1 for s in sites if s['verdict'] == 'ok')
    distinct = len({(s['rule'], s['instance']) for s in sites})
    all_sound = all(res.sound for res in results)
    from . import claims
    # the level recorded is the one claimed in MANIFEST.json for this property; clause-level soundness is in coverage.rules
    level = claims.CLAIMS.get(prop, {}).get('category', 'other')
    samples = []
    for res in results:
        for s in res.sites[:6]:
            samples.append({k: v for k, v in s.items()})
    cov = {
        'evaluations': obligations,
        'distinct_nontrivial': distinct,
        'rule': 'rule instances (call sites, field accesses, aggregates, table entries, witnesses) enumerated from the '
                'type-checked MIR of /repo as compiled on this run; an instance is non-trivial when its verdict came '
                'from the analysis of a concrete construct (all counted instances are), distinct by (rule, instance)',
        'samples': samples,
        'obligations': obligations,
        'discharged': discharged,
        'checker_cmd': 'bin/check %s --tier %s' % (prop, a.tier),
        'trusted_base': ['rustc nightly front end + MIR construction (%s)' % meta['rustc'],
                         'rsv-driver fact extraction', 'rsv rule engine (python)',
                         'std / dashmap / itertools API contracts named in DESIGN §7c'],
        'explanation': 'static analysis: structural necessary conditions of the property decided on the compiler\'s '
                       'MIR; the behaviour as a whole is NOT decided. Clauses: '
                       + ' | '.join('%s: %s' % (res.rule, res.clause) for res in results),
        'exhaustive': True,
        'rules': [{'rule': res.rule, 'clause': res.clause, 'instances': len(res.sites),
                   'discharged': res.discharged, 'floor': res.floor, 'findings': [f.key for f in res.findings],
                   'sound_for_clause': res.sound} for res in results],
        'analysed': {'bodies': nbodies, 'config': meta, 'repo': a.repo},
    }
    cov.update(extra)
    ev = {
        'property_id': prop,
        'tier': a.tier,
        'seed': seed,
        'level': level,
        'coverage': cov,
        'assumptions': sorted({x for res in results for x in res.assumptions} | {
            'analysed MIR is produced by nightly rustc, not the pinned 1.83 (source-level structure agrees)',
            'lib target, cfg(not(test)), default features, host target'}),
        'wall_s': round(wall, 2),
        'violations': len(violations),
        'known_findings': [f.key for f in known_hits],
    }
    if not a.no_evidence and not a.replay:
        os.makedirs(os.path.join(VERIF, 'evidence'), exist_ok=True)
        with open(os.path.join(VERIF, 'evidence', prop + '.json'), 'w') as f:
            json.dump(ev, f, indent=1)
    print('%s %s: %d rules, %d instances, %d discharged, %d violations, %d known findings, %.1fs' % (
        prop, a.tier, len(results), obligations, discharged, len(violations), len(known_hits), wall))
    return 1 if violations else 0


if __name__ == '__main__':
    sys.exit(main())
