// Defect F15 (C17): a SourceMapSource with an inner map whose OUTER map uses a name index beyond its `names` table panics with
// "called `Option::unwrap()` on a `None` value" (src/helpers.rs, stream_chunks_of_combined_source_map, branch "no inner name, but an
// outer name": `name_index_value_mapping.get(&name_index).cloned().unwrap()`), in map() and in chunk streaming with columns.
// C17's domain names "source or name indices point outside the tables".  The sibling lookup a few lines below already treats an
// unknown outer name as "no name".  Found by the round-9 sub-agent for C17 on the clean tree 17e618d.
use rspack_sources::*;

#[test]
fn outer_name_index_outside_the_names_table_does_not_panic() {
  let source = SourceMapSource::new(SourceMapSourceOptions {
    value: "hello world",
    name: "hello.txt",
    // one segment with 5 fields: name index 0, but `names` is empty
    source_map: SourceMap::new(
      "AAAAA",
      vec!["hello.txt".to_string()],
      vec![],
      Vec::<String>::new(),
    ),
    original_source: Some("hello world".to_string()),
    inner_source_map: Some(SourceMap::new(
      "AAAA",
      vec!["inner.txt".to_string()],
      vec!["hello world".to_string()],
      Vec::<String>::new(),
    )),
    remove_original_source: false,
  });
  let map = source.map(&MapOptions::default()).expect("a map");
  assert!(map.names().is_empty());
}
