// F16 (C04, C11): ReplaceSource joined two lines at column 0 when a pure deletion removed a line break.
// Fails on /repo 7bf194b, passes after the fix.  (Found by the round-10 C04 sub-agent; reported by TAGGED-OFFSET:arms-missing.)
use rspack_sources::{MapOptions, OriginalSource, ReplaceSource, Source};

#[test]
fn deleting_a_line_break_keeps_the_column_of_the_kept_prefix() {
  let mut r = ReplaceSource::new(OriginalSource::new("bx\nxy\n", "f.js"));
  r.replace(1, 3, "", None); // delete "x\n": "b" and "xy\n" end up on one line
  assert_eq!(r.source(), "bxy\n");
  let map = r.map(&MapOptions::default()).unwrap();
  // "b"    output 1:0 <- f.js 1:0 ; "xy\n" output 1:1 <- f.js 2:0
  assert_eq!(map.mappings(), "AAAA,CACA"); // before the fix: "AAAA,AACA" (two segments at column 0)
}

#[test]
fn column_does_not_go_backwards_on_the_joined_line() {
  let mut r = ReplaceSource::new(OriginalSource::new("a\n}b}\nc", "f.js"));
  r.replace(4, 6, "", None);
  assert_eq!(r.source(), "a\n}bc");
  let map = r.map(&MapOptions::default()).unwrap();
  let mut last = (0u32, 0u32);
  for m in map.decoded_mappings() {
    assert!((m.generated_line, m.generated_column) >= last, "positions must not go backwards: {:?}", m);
    last = (m.generated_line, m.generated_column);
  }
}
