"""Anchor resolution: locate the rule instances by *public item name* and *field type shape*,
never by private names, text or line numbers (DESIGN §7 anchoring policy)."""


class AnchorMissing(Exception):
    pass


def shape_is(shape, adt_suffix):
    return isinstance(shape, dict) and shape.get('adt', '').endswith(adt_suffix)


def shape_arg(shape, i=0):
    a = shape.get('args') or []
    return a[i] if len(a) > i else None


def adt_by_name(facts, name):
    c = [a for a in facts.adts.values() if a['name'] == name]
    if len(c) != 1:
        raise AnchorMissing('public type %s: found %d candidates' % (name, len(c)))
    return c[0]


def fields(adt):
    return [f for v in adt['variants'] for f in v['fields']]


def is_atomic_bool(shape):
    if not isinstance(shape, dict):
        return False
    p = shape.get('adt', '')
    if p.endswith('atomic::AtomicBool'):
        return True
    if p.endswith('atomic::Atomic'):
        a = shape_arg(shape)
        return isinstance(a, dict) and a.get('prim') == 'bool'
    return False


def one(cands, what):
    if len(cands) != 1:
        raise AnchorMissing('%s: expected exactly one, found %d (%s)' % (what, len(cands), [c['name'] for c in cands]))
    return cands[0]


def replace_source(facts):
    adt = adt_by_name(facts, 'ReplaceSource')
    fs = fields(adt)
    repl = one([f for f in fs if shape_is(f['shape'], 'vec::Vec')
                and isinstance(shape_arg(f['shape']), dict)
                and shape_arg(f['shape']).get('adt', '') in facts.adts], 'ReplaceSource: Vec<local struct> field')
    def mutex_vec(sh):
        if shape_is(sh, 'sync::Arc'):
            sh = shape_arg(sh)
        return shape_is(sh, 'Mutex') and shape_is(shape_arg(sh), 'vec::Vec')
    idx = one([f for f in fs if mutex_vec(f['shape'])], 'ReplaceSource: Mutex<Vec<_>> field')
    flag = one([f for f in fs if is_atomic_bool(f['shape'])], 'ReplaceSource: AtomicBool field')
    inner = one([f for f in fs if shape_is(f['shape'], 'sync::Arc')
                 and isinstance(shape_arg(f['shape']), dict) and 'param' in shape_arg(f['shape'])],
                'ReplaceSource: Arc<T> field')
    return {'adt': adt['path'], 'replacements': repl['name'], 'sorted_index': idx['name'],
            'is_sorted': flag['name'], 'inner': inner['name'],
            'replacement_adt': shape_arg(repl['shape'])['adt']}


def cached_source(facts):
    adt = adt_by_name(facts, 'CachedSource')
    fs = fields(adt)

    def arc_of(f, suffix):
        return shape_is(f['shape'], 'sync::Arc') and shape_is(shape_arg(f['shape']), suffix)
    maps = one([f for f in fs if arc_of(f, 'DashMap')], 'CachedSource: Arc<DashMap<..>> field')
    h = one([f for f in fs if arc_of(f, 'OnceLock') and isinstance(shape_arg(shape_arg(f['shape'])), dict)
             and shape_arg(shape_arg(f['shape'])).get('prim') == 'u64'], 'CachedSource: Arc<OnceLock<u64>> field')
    inner = one([f for f in fs if shape_is(f['shape'], 'sync::Arc')
                 and isinstance(shape_arg(f['shape']), dict) and 'param' in shape_arg(f['shape'])],
                'CachedSource: Arc<T> field')
    return {'adt': adt['path'], 'cached_maps': maps['name'], 'cached_hash': h['name'], 'inner': inner['name']}


def once_string_cells(facts):
    """(adt path, field name) of every OnceLock<String> field of a crate type"""
    out = []
    for a in facts.adts.values():
        for f in fields(a):
            if shape_is(f['shape'], 'OnceLock') and shape_is(shape_arg(f['shape']), 'string::String'):
                out.append((a['path'], f['name']))
    return out


def source_types(facts):
    """ADTs implementing the crate's `Source` trait"""
    tr = trait_path(facts, 'Source')
    out = []
    for i in facts.impls:
        if i.get('trait') == tr and i.get('self_adt') in facts.adts:
            out.append(i['self_adt'])
    return sorted(set(out))


def trait_path(facts, name):
    c = [t for t in facts.traits if t.rsplit('::', 1)[-1] == name]
    if len(c) != 1:
        raise AnchorMissing('trait %s: found %d' % (name, len(c)))
    return c[0]


def cache_fields(facts):
    """CACHE fields: non-Freeze fields of crate ADTs that implement Source (plus their nested Arc)."""
    out = []
    for p in source_types(facts):
        a = facts.adts[p]
        for f in fields(a):
            if not f['freeze'] or _arc_of_nonfreeze(f['shape']):
                out.append((p, f['name'], f['ty']))
    return out


def _arc_of_nonfreeze(shape):
    if shape_is(shape, 'sync::Arc'):
        a = shape_arg(shape)
        if isinstance(a, dict):
            p = a.get('adt', '')
            return p.endswith('OnceLock') or p.endswith('DashMap') or p.endswith('Mutex') \
                or p.endswith('RwLock') or p.endswith('RefCell') or p.endswith('Cell') or 'atomic::' in p
    return False
