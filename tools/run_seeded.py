#!/usr/bin/env python3
"""Run every registered quick check against every seeded change under /verif/seeded/*/ (patch applied to /repo, always
restored), record which rule keys fire in seeded/<id>/meta.json (`detected_by`) and write seeded/RESULTS.md.
usage: tools/run_seeded.py [id ...]"""
import json, os, subprocess, sys
from concurrent.futures import ThreadPoolExecutor
V = os.path.dirname(os.path.dirname(os.path.abspath(__file__)))
SD = os.path.join(V, 'seeded')
props = [c['property_id'] for c in json.load(open(os.path.join(V, 'MANIFEST.json')))['checks']]
ids = sys.argv[1:] or sorted(d for d in os.listdir(SD) if os.path.isdir(os.path.join(SD, d)))


def check_all():
    """all properties' quick rules on /repo as it stands (one compilation, shared fact base)"""
    r = subprocess.run([sys.executable, '-m', 'rsv.check_all', '--repo', '/repo'], capture_output=True, text=True, cwd=V)
    try:
        return json.loads(r.stdout)
    except Exception:
        return {'_infra': ['check_all failed: ' + (r.stderr or r.stdout)[-300:]]}


st = subprocess.run(['git', '-C', '/repo', 'status', '--porcelain', '--untracked-files=no'], capture_output=True, text=True).stdout
if st.strip():
    sys.exit('refusing: /repo has local modifications:\n' + st)
for sid in ids:
    d = os.path.join(SD, sid)
    meta = json.load(open(os.path.join(d, 'meta.json')))
    r = subprocess.run(['git', '-C', '/repo', 'apply', os.path.join(d, 'patch.diff')], capture_output=True, text=True)
    if r.returncode != 0:
        meta['detected_by'] = {'_error': 'patch no longer applies'}
    else:
        try:
            res = check_all()
        finally:
            subprocess.run(['git', '-C', '/repo', 'checkout', '--', '.'], check=True)
        meta['detected_by'] = res
    meta['detected_by_own_property'] = any(p in meta['detected_by'] for p in meta['breaks'])
    json.dump(meta, open(os.path.join(d, 'meta.json'), 'w'), indent=1)
    print(sid, 'own:', meta['detected_by_own_property'], json.dumps(meta['detected_by'])[:200])
subprocess.run(['rm', '-rf', os.path.join(V, 'reports')])
# summary
rows = ['| seeded change | breaks | caught by the property\'s own check | rules that fire (property: keys) |', '|---|---|---|---|']
for sid in sorted(d for d in os.listdir(SD) if os.path.isdir(os.path.join(SD, d))):
    m = json.load(open(os.path.join(SD, sid, 'meta.json')))
    db = m.get('detected_by', {})
    own = 'yes' if m.get('detected_by_own_property') else ('no' if db is not None else '?')
    txt = '; '.join('%s: %s' % (p, ', '.join(sorted(set(k.split(':')[0] for k in ks)))) for p, ks in sorted(db.items()) if not p.startswith('_'))
    rows.append('| %s | %s | %s | %s |' % (sid, ' '.join(m['breaks']), own, txt or '— (missed)'))
open(os.path.join(SD, 'RESULTS.md'), 'w').write('\n'.join(rows) + '\n')
