// F21 (C20, OPEN - recorded, not repaired): ConcatSource::hash feeds a type tag and then each child, but neither the number of children
// nor a terminator, so the end of a nested (boxed) child list is not encoded: two trees with different text feed every hasher the
// identical call sequence.  FAILS on the current tree (known finding HASH-FRAMED:...ConcatSource...:unframed).
// A repair (hashing children.len()) moves the hash constant the pinned test `source::tests::hash_available` asserts.
// Found by the round-10 C20 sub-agent.
use std::hash::{Hash, Hasher};

use rspack_sources::{ConcatSource, RawSource, ReplaceSource, Source, SourceExt};

fn h<T: Hash>(t: &T) -> u64 {
  let mut s = std::collections::hash_map::DefaultHasher::new();
  t.hash(&mut s);
  s.finish()
}

#[test]
fn child_boundary_is_not_hashed() {
  let mut r1 = ReplaceSource::new(ConcatSource::new([RawSource::from("ab"), RawSource::from("cd")]).boxed());
  r1.insert(3, "X", None);
  let t1 = ConcatSource::new([r1.boxed()]);
  let mut r2 = ReplaceSource::new(ConcatSource::new([RawSource::from("ab")]).boxed());
  r2.insert(3, "X", None);
  let t2 = ConcatSource::new([r2.boxed(), RawSource::from("cd").boxed()]);
  assert_eq!(t1.source(), "abcXd");
  assert_eq!(t2.source(), "abXcd");
  assert!(t1 != t2);
  assert_ne!(h(&t1), h(&t2)); // fails: identical hasher call sequence
}
