use rspack_sources::*;
// Demonstration for defect F10: an outer segment that points at original line 0 of the inner source (a wild map:
// original-line delta -1 on the first segment) made SourceMapSource::map panic in find_inner_mapping.
#[test]
fn outer_segment_on_original_line_zero_does_not_panic() {
  let outer = SourceMap::from_json(r#"{"version":3,"sources":["inner.js"],"sourcesContent":["x;\n"],"names":[],"mappings":"AADA"}"#).unwrap();
  let inner = SourceMap::from_json(r#"{"version":3,"sources":["orig.js"],"sourcesContent":["y;\n"],"names":[],"mappings":"AAAA"}"#).unwrap();
  let s = SourceMapSource::new(SourceMapSourceOptions {
    value: "x;\n", name: "inner.js", source_map: outer, original_source: Some("x;\n".to_string()),
    inner_source_map: Some(inner), remove_original_source: false,
  });
  let _ = s.map(&MapOptions::default());
  let _ = s.map(&MapOptions::new(false));
}
