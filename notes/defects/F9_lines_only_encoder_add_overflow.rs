use rspack_sources::*;

// minimal VLQ encoder for the probe
fn vlq(v: i64) -> String {
  const B: &[u8] = b"ABCDEFGHIJKLMNOPQRSTUVWXYZabcdefghijklmnopqrstuvwxyz0123456789+/";
  let mut n: u64 = if v < 0 { ((-v as u64) << 1) | 1 } else { (v as u64) << 1 };
  let mut s = String::new();
  loop { let mut d = n & 31; n >>= 5; if n > 0 { d |= 32; } s.push(B[d as usize] as char); if n == 0 { break; } }
  s
}

#[test]
fn probe() {
  // line 1: segment col0 -> source 0, original line index 4294967294 (1-based 4294967295), col 0 ; line 2: same source, next segment
  let mappings = format!("A{}{}{};A{}{}{}", vlq(0), vlq(4294967294), vlq(0), vlq(0), vlq(0), vlq(0));
  let json = format!(r#"{{"version":3,"sources":["a.js"],"sourcesContent":["x\ny\n"],"names":[],"mappings":"{}"}}"#, mappings);
  let map = SourceMap::from_json(&json).unwrap();
  let s = SourceMapSource::new(WithoutOriginalOptions { value: "l1\nl2\n", name: "gen.js", source_map: map });
  let c = ConcatSource::new([s.boxed(), RawStringSource::from("tail\n").boxed()]);
  let m = c.map(&MapOptions::new(false));
  println!("{:?}", m.map(|m| m.mappings().to_string()));
}
