use rspack_sources::*;
// Demonstration for defect F12: a child map with generated column 4294967295 on the child's first line made
// ConcatSource::map() panic ("attempt to add with overflow", overflow-checked builds) when the previous child ends mid-line.
fn vlq(v: i64) -> String {
  const B: &[u8] = b"ABCDEFGHIJKLMNOPQRSTUVWXYZabcdefghijklmnopqrstuvwxyz0123456789+/";
  let mut n: u64 = if v < 0 { ((-v as u64) << 1) | 1 } else { (v as u64) << 1 };
  let mut s = String::new();
  loop {
    let mut d = n & 31;
    n >>= 5;
    if n > 0 { d |= 32; }
    s.push(B[d as usize] as char);
    if n == 0 { break; }
  }
  s
}
#[test]
fn huge_generated_column_in_a_later_child() {
  let mappings = format!("{}AAA", vlq(4294967295));
  let json = format!(r#"{{"version":3,"sources":["a.js"],"sourcesContent":["x\ny\n"],"names":[],"mappings":"{}"}}"#, mappings);
  let map = SourceMap::from_json(&json).unwrap();
  let s = SourceMapSource::new(WithoutOriginalOptions { value: "x\ny\n", name: "gen.js", source_map: map });
  let c = ConcatSource::new([OriginalSource::new("ab", "o.js").boxed(), s.boxed()]);
  let _ = c.map(&MapOptions::default());
}
