#!/usr/bin/env python3
"""dev helper: facts for /repo + patch (scratch copy under $TMPDIR, removed afterwards): tools/facts_for_patch.py <patch> <out.json>"""
import os, shutil, sys
sys.path.insert(0, os.path.dirname(os.path.dirname(os.path.abspath(__file__))))
from rsv import build
from rsv.thorough import scratch_copy, apply_patch
patch, out = os.path.abspath(sys.argv[1]), os.path.abspath(sys.argv[2])
base, dst = scratch_copy('/repo', 'factsdev')
try:
    ok, msg = apply_patch(dst, patch)
    if not ok:
        sys.exit('patch does not apply: ' + msg)
    od = os.path.join(base, 'facts')
    os.makedirs(od)
    an = build.analyse(dst, 'dev', od)
    shutil.copy(an.facts_path, out)
    print(out)
finally:
    shutil.rmtree(base, ignore_errors=True)
