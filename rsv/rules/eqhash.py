"""EQCOVER, HASH-IN-EQ, HASHCOVER, CLONECOVER, HASHDET  (C14, C20) — field-coverage of Eq/Hash/Clone."""
from ..core import RuleResult
from ..ir import walk, access_paths, inline, strip
from .. import anchors
from .replace_cache import groups

EQ = 'std::cmp::PartialEq'
HASH = 'std::hash::Hash'
CLONE = 'std::clone::Clone'

# named exemptions (single symbol + reason)
HASH_EXEMPT = {
    ('SourceMapSource', 'name'): 'the property statement excludes the name of a SourceMapSource (as in webpack-sources)',
}


def cone(f, body, adt, seen=None):
    """bodies reachable from `body` staying inside methods of `adt` (and closures)"""
    if seen is None:
        seen = {}
    root = body.d.get('root') or body.path
    if root in seen:
        return seen
    members = [b for b in f.body_list if b.promoted is None and (b.d.get('root') or b.path) == root]
    seen[root] = members
    for m in members:
        for pt, t in m.calls():
            c = t.get('callee')
            if not c:
                continue
            for p in (c.get('resolved'), c.get('path')):
                cb = f.body(p) if p else None
                if cb is not None and cb.d.get('impl_adt') == adt:
                    cone(f, cb, adt, seen)
                    break
    return seen


def fields_touched(f, body, adt):
    out = {}
    for root, members in cone(f, body, adt).items():
        for m in members:
            for pt, role, pl, node in m.places():
                for x in pl['pr']:
                    if isinstance(x, dict) and x.get('o') == adt and 'n' in x:
                        out.setdefault(x['n'], []).append(node.get('s', m.span()))
    return out


def impl_method(f, adt, trait, name):
    bs = [b for b in f.body_list if b.promoted is None and b.d['kind'] != 'Closure'
          and b.d.get('impl_adt') == adt and b.d.get('impl_trait') == trait and b.name == name]
    return bs[0] if bs else None


def data_fields(f, adt):
    cache = {(a, fl) for a, fl, _ in anchors.cache_fields(f)}
    a = f.adts[adt]
    if a['kind'] != 'Struct':
        return None
    return [fl['name'] for fl in anchors.fields(a) if (adt, fl['name']) not in cache and 'PhantomData' not in fl['ty']]


def constant_fields(f, adt):
    """fields that every aggregate of `adt` in the crate sets to the same constant"""
    vals = {}
    for b in f.body_list:
        for pt, s in b.points():
            if s['k'] == 'assign' and s['r']['k'] == 'agg' and s['r'].get('path') == adt:
                for n, o in zip(s['r']['fields'], s['r']['ops']):
                    if o['k'] != 'const' and any(x[0] == 'field' and x[2] == n and x[3] == adt
                                                 for x in walk(b.expr_of_operand(o))):
                        continue  # copied from the same field of another value (Clone): neutral
                    v = ('const', o.get('int', o.get('bool'))) if o['k'] == 'const' and ('int' in o or 'bool' in o) else ('dyn', id(o))
                    vals.setdefault(n, set()).add(v)
    return {n for n, v in vals.items() if len(v) == 1 and next(iter(v))[0] == 'const'}


def types_with(f, *traits):
    out = []
    for p, a in f.adts.items():
        if a['kind'] != 'Struct':
            continue
        if all(impl_method(f, p, t, {EQ: 'eq', HASH: 'hash', CLONE: 'clone'}[t]) for t in traits):
            out.append(p)
    return sorted(out)


def rule_eqcover(ctx):
    f = ctx.facts()
    r = RuleResult('EQCOVER', '`==` of every source type compares every data field (values differing in a name, map, '
                              'replacement or option compare unequal)')
    r.floor = 10
    for adt in types_with(f, EQ):
        eq = impl_method(f, adt, EQ, 'eq')
        touched = fields_touched(f, eq, adt)
        for fl in data_fields(f, adt):
            ok = fl in touched
            r.site('%s: `==` compares field %s' % (adt, fl), eq.span(), 'ok' if ok else 'violation', derived=eq.d.get('derived'))
            if not ok:
                r.violation('%s:%s' % (adt, fl), eq.span(), eq.path,
                            'PartialEq::eq never reads data field `%s`: values differing only there compare equal but '
                            'answer observers differently' % fl)
    r.check_floor()
    return r


def rule_hash_in_eq(ctx):
    f = ctx.facts()
    r = RuleResult('HASH-IN-EQ', 'a == b implies hash(a) == hash(b): Hash reads no data field that Eq ignores')
    r.floor = 10
    for adt in types_with(f, EQ, HASH):
        eq = impl_method(f, adt, EQ, 'eq')
        h = impl_method(f, adt, HASH, 'hash')
        et = fields_touched(f, eq, adt)
        ht = fields_touched(f, h, adt)
        dfl = data_fields(f, adt)
        for fl in dfl:
            if fl in ht:
                ok = fl in et
                r.site('%s: hashed field %s is compared by `==`' % (adt, fl), h.span(), 'ok' if ok else 'violation')
                if not ok:
                    r.violation('%s:%s' % (adt, fl), h.span(), h.path,
                                'Hash::hash feeds field `%s` that PartialEq::eq ignores: equal values get different hashes' % fl)
    r.check_floor()
    return r


def rule_hashcover(ctx):
    f = ctx.facts()
    r = RuleResult('HASHCOVER', 'every data field that `==` compares is fed to the hasher (named exemptions only), so '
                                'sources differing in anything that changes source()/buffer()/map() hash differently up to collisions')
    r.floor = 10
    for adt in types_with(f, EQ, HASH):
        eq = impl_method(f, adt, EQ, 'eq')
        h = impl_method(f, adt, HASH, 'hash')
        et = fields_touched(f, eq, adt)
        ht = fields_touched(f, h, adt)
        consts = constant_fields(f, adt)
        name = f.adts[adt]['name']
        for fl in data_fields(f, adt):
            if fl not in et:
                continue
            if (name, fl) in HASH_EXEMPT:
                r.site('%s: field %s exempt — %s' % (adt, fl, HASH_EXEMPT[(name, fl)]), h.span(), 'ok', exempt=True)
                continue
            if fl in consts and fl not in ht:
                r.site('%s: field %s is the same constant in every constructor' % (adt, fl), h.span(), 'ok', constant=True)
                continue
            ok = fl in ht
            r.site('%s: compared field %s is hashed' % (adt, fl), h.span(), 'ok' if ok else 'violation')
            if not ok:
                r.violation('%s:%s' % (adt, fl), h.span(), h.path,
                            'field `%s` is compared by `==` but never fed to the hasher: values that differ only there are '
                            'unequal, answer observers differently, and always collide' % fl)
            elif not h.d.get('derived'):
                # fed on every path: a path to the return that skips every feed of the field may only be chosen by looking at
                # the field itself (`match &self.f { Some(x) => x.hash(..), None => .. }`), never by other state
                feeds = set()
                for pt, t in h.calls():
                    if any(x[0] == 'field' and x[2] == fl and x[3] == adt for a in t['args'] for x in walk(h.expr_of_operand(a))):
                        # round 10: a feed hands the field to the hasher - the call also receives the hasher (`state`); a predicate
                        # over the field (`is_all_empty(&self.f)`) is not a feed
                        if any(x[0] == 'arg' and x[1] == 2 for a in t['args'] for x in walk(h.expr_of_operand(a))):
                            feeds.add(pt[0])
                if feeds:
                    avoid = h.reachable(0, blocked=feeds)
                    rets = [rb for rb in h.return_blocks() if rb in avoid]
                    bad = None
                    if rets:
                        can_ret = {x for x in avoid if any(rb in h.reachable(x, blocked=feeds) for rb in rets)}
                        for d in sorted(can_ret):
                            t = h.term(d)
                            if t['k'] != 'switch':
                                continue
                            succ = h.succs(d)
                            splits = any(x in can_ret for x in succ) and any(x not in can_ret or x in feeds for x in succ)
                            if not splits:
                                continue
                            de = h.expr_of_operand(t['d']) if t['d']['k'] in ('copy', 'move') else ('const',)
                            if not any(x[0] == 'field' and x[2] == fl and x[3] == adt for x in walk(de)):
                                bad = t
                                break
                            # round 10: the choice may look at the field only in a way that sends a SINGLE value down the skipping
                            # path - its discriminant (`None`), or `is_empty` / `is_none` / `is_some` of it; any other predicate
                            # (`is_all_empty(&self.f)`) sends a whole class of values there, which then hash alike
                            single = de[0] == 'discr' or (de[0] == 'call' and de[1].rsplit('::', 1)[-1] in ('is_empty', 'is_none', 'is_some')) \
                                or (de[0] == 'un' and de[2][0] == 'call' and de[2][1].rsplit('::', 1)[-1] in ('is_empty', 'is_none', 'is_some'))
                            if not single:
                                bad = t
                                break
                    r.site('%s: field %s is fed to the hasher on every path' % (adt, fl), h.span(), 'violation' if bad else 'ok')
                    if bad:
                        r.violation('%s:%s:some-paths' % (adt, fl), bad.get('s') or h.span(), h.path,
                                    'field `%s` reaches the hasher only on some paths, chosen by other state: two values that differ '
                                    'in it are unequal but hash alike whenever that state selects the skipping path' % fl)
    r.check_floor()
    return r


def rule_clonecover(ctx):
    f = ctx.facts()
    r = RuleResult('CLONECOVER', 'a clone carries every data field of its original (hand-written Clone impls)')
    r.floor = 2
    cache = {(a, fl) for a, fl, _ in anchors.cache_fields(f)}
    for adt in types_with(f, CLONE):
        cl = impl_method(f, adt, CLONE, 'clone')
        if cl.d.get('derived'):
            continue
        aggs = [(pt, s) for pt, s in cl.points() if s['k'] == 'assign' and s['r']['k'] == 'agg' and s['r'].get('path') == adt]
        if not aggs:
            # built through a private constructor: look at the aggregate it returns, with its parameters substituted
            ret = inline(f, cl.expr_of_local(0), depth=2)
            lits = [x for x in strip(ret, through_calls=set()) if x[0] == 'agg' and x[2] == adt]
            if lits:
                for lit in lits:
                    for n, e in zip(lit[4], lit[5]):
                        from_self = any(x[0] == 'field' and x[2] == n and x[3] == adt for x in walk(e))
                        if (adt, n) in cache:
                            fresh = e[0] == 'call' and e[1].rsplit('::', 1)[-1] in ('default', 'new') and \
                                not any(x[0] == 'field' for x in walk(e))
                            ok = from_self or fresh
                            what = 'cache field %s is fresh or copied from self' % n
                        else:
                            ok = from_self
                            what = 'data field %s is copied from self.%s' % (n, n)
                        r.site('%s::clone (via constructor): %s' % (adt, what), cl.span(), 'ok' if ok else 'violation')
                        if not ok:
                            r.violation('%s:%s' % (adt, n), cl.span(), cl.path,
                                        'clone does not copy field `%s` from the original: the clone is not observationally identical' % n)
                continue
        if not aggs:
            r.site('%s: hand-written clone' % adt, cl.span(), 'violation')
            r.violation('%s:no-aggregate' % adt, cl.span(), cl.path, 'clone does not build the value field by field (unrecognised idiom)',
                        reason='unrecognised-idiom')
            continue
        for pt, s in aggs:
            for n, o in zip(s['r']['fields'], s['r']['ops']):
                e = cl.expr_of_operand(o)
                from_self = any(x[0] == 'field' and x[2] == n and x[3] == adt for x in walk(e))
                if (adt, n) in cache:
                    fresh = e[0] == 'call' and e[1].rsplit('::', 1)[-1] in ('default', 'new') and \
                        not any(x[0] == 'field' for x in walk(e))
                    ok = from_self or fresh
                    what = 'cache field %s is fresh or copied from self' % n
                    fty = [fl for fl in anchors.fields(f.adts[adt]) if fl['name'] == n][0]
                    shared = from_self and anchors.shape_is(fty['shape'], 'sync::Arc') and e[0] == 'call' and \
                        e[1].rsplit('::', 1)[-1] == 'clone' and e[2] and e[2][0][0] == 'ref' and e[2][0][1][0] == 'field'
                    if shared:
                        # the clone and the original keep using ONE cache: only sound if the data it is derived from can never
                        # diverge, i.e. no function mutates a data field of this type
                        dfl = set(data_fields(f, adt) or [])
                        muts = [bb.path for bb in f.body_list if bb.promoted is None for fld in dfl
                                for _pt, role, _pl, _nd, _rest in bb.field_accesses(adt, fld) if role in ('mutref', 'write', 'drop')]
                        ok2 = not muts
                        r.site('%s::clone: cache field %s is shared with the original; the type has no mutator of its data' % (adt, n),
                               s['s'], 'ok' if ok2 else 'violation')
                        if not ok2:
                            r.violation('%s:%s:shared-cache' % (adt, n), s['s'], cl.path,
                                        'clone shares cache `%s` with its original (Arc clone) although the data it is computed from can be '
                                        'mutated independently afterwards (%s): one side\'s recomputation corrupts the other' % (n, sorted(set(muts))[:2]))
                else:
                    ok = from_self
                    what = 'data field %s is copied from self.%s' % (n, n)
                r.site('%s::clone: %s' % (adt, what), s['s'], 'ok' if ok else 'violation')
                if not ok:
                    r.violation('%s:%s' % (adt, n), s['s'], cl.path,
                                'clone does not copy field `%s` from the original: the clone is not observationally identical' % n)
    r.check_floor()
    return r


FORBIDDEN_HASH_CALLEES = ['any::TypeId', 'type_id', 'as_ptr', 'ptr::hash', '::addr', 'RandomState', 'thread::current',
                          'Instant', 'SystemTime', 'DefaultHasher', 'ptr_eq', 'thread::ThreadId', 'process::id', 'env::']


def rule_hashdet(ctx):
    f = ctx.facts()
    r = RuleResult('HASHDET', 'hashing is address-, order- and process-independent: no pointer/TypeId/random/time/thread input, '
                              'no iteration over a hash map, only FxHasher constructed')
    r.floor = 5
    for b in f.body_list:
        if b.promoted is not None or b.d['kind'] == 'Closure' or b.d.get('impl_trait') != HASH:
            continue
        adt = b.d.get('impl_adt')
        bad = []
        members = [m for ms in cone(f, b, adt).values() for m in ms] if adt in f.adts else \
            [m for m in f.body_list if (m.d.get('root') or m.path) == b.path and m.promoted is None]
        for m in members:
            for pt, t in m.calls():
                c = t.get('callee')
                if not c:
                    continue
                full = (c.get('dp', '') + ' ' + c.get('path', '') + ' ' + (c.get('resolved') or ''))
                for pat in FORBIDDEN_HASH_CALLEES:
                    if pat in full:
                        bad.append((t['s'], 'calls `%s`' % c['path']))
                if c['name'] in ('iter', 'into_iter', 'keys', 'values') and t['args'] and \
                        any(k in t['arg_tys'][0] for k in ('HashMap', 'DashMap', 'HashSet')):
                    bad.append((t['s'], 'iterates a hash map (`%s`)' % t['arg_tys'][0][:60]))
                if c['name'] in ('default', 'new', 'build_hasher') and 'Hasher' in (c.get('path', '') + ''.join(c.get('targs', []))) \
                        and 'FxHasher' not in (c.get('path', '') + ''.join(c.get('targs', []))):
                    bad.append((t['s'], 'constructs a hasher other than FxHasher (`%s`)' % c['path']))
            for pt, s in m.points():
                if s['k'] == 'assign' and s['r']['k'] == 'cast' and \
                        any(k in s['r']['ck'] for k in ('PointerExposeProvenance', 'Transmute', 'PtrToPtr')) and not s.get('x'):
                    bad.append((s['s'], 'casts a pointer (`%s`) inside a Hash cone' % s['r']['ck']))
        ok = not bad
        r.site('%s: hash cone (%d bodies) is deterministic' % (b.path, len(members)), b.span(), 'ok' if ok else 'violation')
        for site, why in bad:
            r.violation('%s:%s' % (b.path, why.split('`')[1] if '`' in why else why), site, b.path,
                        'hash depends on a process-/address-/order-dependent input: ' + why)
    r.check_floor()
    return r


SKIPPING_ADAPTORS = {'filter', 'filter_map', 'skip', 'skip_while', 'take', 'take_while', 'step_by', 'dedup', 'dedup_by',
                     'dedup_by_key', 'unique', 'nth', 'last', 'find', 'find_map', 'flatten', 'chunks', 'windows', 'split_first',
                     'split_last', 'first', 'get'}


def rule_hashall(ctx):
    f = ctx.facts()
    r = RuleResult('HASHALL', 'a container\'s hash covers every element: Hash impls iterate their element vectors without skipping '
                              'adaptors and hash the element on every iteration (a child that differs — even an empty one with another file '
                              'name — changes the hash)')
    r.floor = 2
    from .panics import loops, loop_blocks
    for b in f.body_list:
        if b.promoted is not None or b.d['kind'] == 'Closure' or b.d.get('impl_trait') != HASH:
            continue
        adt = b.d.get('impl_adt')
        if adt not in f.adts:
            continue
        members = [m for ms in cone(f, b, adt).values() for m in ms]
        lps = loops(b)
        if not lps:
            continue
        bad = []
        for m in members:
            for pt, t in m.calls():
                c = t.get('callee')
                if c and c['name'] in SKIPPING_ADAPTORS and (c.get('trait') or '').endswith('Iterator') or \
                        (c and c['name'] in SKIPPING_ADAPTORS and 'itertools' in c.get('path', '')):
                    if m is b:
                        bad.append((t['s'], 'iterator adaptor `%s` drops or reorders elements' % c['name']))
        for h, srcs in lps.items():
            blk = loop_blocks(b, h, srcs)
            hashes = [pt for pt, t in b.calls() if pt[0] in blk and t.get('callee') and t['callee']['name'] == 'hash']
            if not any(all(b.dominates(hp, (s_, 0)) for s_ in srcs) for hp in hashes):
                bad.append((b.span(), 'the loop does not hash its element on every iteration'))
        ok = not bad
        r.site('%s: element loop hashes every element' % b.path, b.span(), 'ok' if ok else 'violation')
        for site, why in bad:
            r.violation('%s:%s' % (b.path, why.split('`')[1] if '`' in why else 'conditional'), site, b.path,
                        'container hash does not cover every element: ' + why + ' — trees that differ in the skipped elements '
                        '(and in map()) always collide')
    r.check_floor()
    return r


def rule_eq_allpaths(ctx):
    f = ctx.facts()
    r = RuleResult('EQ-ALLPATHS', 'a hand-written `==` compares every data field on every path that can answer true: no data-dependent '
                                  'shortcut skips a field that Hash still feeds (a == b must imply equal hashes)')
    r.floor = 5
    for adt in types_with(f, EQ):
        eq = impl_method(f, adt, EQ, 'eq')
        if eq.d.get('derived'):
            continue
        members = [m for ms in cone(f, eq, adt).values() for m in ms]
        dfl = data_fields(f, adt) or []
        # blocks of eq itself in which the result is pinned to false
        false_blocks = set()
        for pt, s in eq.points():
            if s['k'] == 'assign' and not s['p']['pr'] and s['p']['l'] == 0 and s['r']['k'] == 'use' and \
                    s['r']['o']['k'] == 'const' and s['r']['o'].get('bool') is False:
                false_blocks.add(pt[0])
        for fl in dfl:
            # blocks of eq in which field fl of self/other is read (directly, or handed to a method of the type that reads it)
            touch = set()
            reads = False

            def mentions(e):
                if any(x[0] == 'field' and x[2] == fl and x[3] == adt for x in walk(e)):
                    return True
                # through an accessor (`self.children()`)
                return any(x[0] == 'field' and x[2] == fl and x[3] == adt for x in walk(inline(f, e, depth=2)))
            for pt, role, pl, node in eq.places():
                if any(isinstance(x, dict) and x.get('o') == adt and x.get('n') == fl for x in pl['pr']):
                    reads = True
            for pt, s in eq.points():
                if s['k'] == 'assign' and s['r']['k'] == 'bin' and s['r']['op'] in ('Eq', 'Ne') and \
                        (mentions(eq.expr_of_operand(s['r']['a'])) or mentions(eq.expr_of_operand(s['r']['b']))):
                    touch.add(pt[0])
            for pt, t in eq.calls():
                c = t.get('callee')
                cb = f.body((c.get('resolved') or c['path'])) if c else None
                if cb is not None and cb.d.get('impl_adt') == adt and fl in fields_touched(f, cb, adt):
                    touch.add(pt[0])
                    continue
                if not c or not any(mentions(eq.expr_of_operand(a)) for a in t['args']):
                    continue
                if c['name'] in ('eq', 'ne', 'cmp', 'partial_cmp'):
                    touch.add(pt[0])
                elif c['name'] == 'ptr_eq' and t.get('t') is not None:
                    # identity of the shared allocation: counts as a comparison on its true edge only
                    nb = t['t']
                    tt = eq.term(nb)
                    if tt['k'] == 'switch' and tt['d']['k'] in ('copy', 'move') and tt['d']['p']['l'] == t['dest']['l']:
                        true_t = tt['otherwise'] if any(v == 0 for v, _ in tt['targets']) else None
                        if true_t is not None:
                            touch.add(true_t)
            # a sequence field compared element-wise through `zip` (which stops at the shorter side) also needs its length compared
            zipped = [t for pt, t in eq.calls() if (t.get('callee') or {}).get('name') == 'zip'
                      and any(mentions(eq.expr_of_operand(a)) for a in t['args'])]
            if zipped:
                lens = [t for pt, t in eq.calls() if (t.get('callee') or {}).get('name') == 'len'
                        and any(mentions(eq.expr_of_operand(a)) for a in t['args'])]
                okz = len(lens) >= 2
                r.site('%s: `%s` is compared through zip together with its length' % (adt, fl), eq.span(), 'ok' if okz else 'violation')
                if not okz:
                    r.violation('%s:%s:zip-without-len' % (adt, fl), eq.span(), eq.path,
                                '`==` compares the elements of `%s` through `zip`, which stops at the shorter sequence, without comparing '
                                'the lengths: a value equals every extension of itself (and the empty one equals everything)' % fl)
                for pt, t in eq.calls():
                    if t in zipped:
                        touch.add(pt[0])
            if reads and not touch:
                # read but never compared by == : every path to true skips it
                touch = set()
            elif not reads:
                continue  # EQCOVER reports a field that is never compared
            reach = eq.reachable(0, blocked=touch | false_blocks)
            leak = [b_ for b_ in eq.return_blocks() if b_ in reach]
            ok = not leak
            r.site('%s: `==` cannot answer true without comparing %s' % (adt, fl), eq.span(), 'ok' if ok else 'violation')
            if not ok:
                r.violation('%s:%s' % (adt, fl), eq.span(), eq.path,
                            '`==` has a path that can answer true without comparing data field `%s` (a data-dependent shortcut): values '
                            'differing there are equal, yet Hash and observers still distinguish them' % fl)
    r.check_floor()
    return r


# ---------------------------------------------------------------- HASH-FRAMED (round 10)
def rule_hash_framed(ctx):
    """a composite that hashes a variable number of children, each with a hash of variable length, encodes where the list ends"""
    from .panics import loops, loop_blocks
    from ..ir import walk
    f = ctx.facts()
    r = RuleResult('HASH-FRAMED', 'a hand-written Hash impl that feeds a variable number of elements whose own hash has variable length '
                                  '(child sources behind dyn Source / Box) also feeds the element count (or hashes the vector as a whole, '
                                  'which std prefixes with its length): otherwise the end of a nested child list is not encoded and two '
                                  'trees with different text feed the hasher the identical call sequence')
    for b in f.body_list:
        if b.promoted is not None or b.d['kind'] == 'Closure' or b.d.get('impl_trait') != HASH or b.d.get('derived'):
            continue
        adt = b.d.get('impl_adt')
        if adt not in f.adts:
            continue
        lps = loops(b)
        for h, srcs in lps.items():
            blk = loop_blocks(b, h, srcs)
            elems = [(pt, t) for pt, t in b.calls() if pt[0] in blk and t.get('callee') and t['callee']['name'] == 'hash'
                     and t.get('arg_tys') and ('dyn ' in t['arg_tys'][0] or 'BoxSource' in t['arg_tys'][0])]
            if not elems:
                continue
            framed = False
            for pt, t in b.calls():
                c = t.get('callee') or {}
                if c.get('name') in ('hash', 'write_usize', 'write_length_prefix', 'write_u64', 'write_u32') and t['args']:
                    e = b.expr_of_operand(t['args'][0])
                    if any(isinstance(x, tuple) and x and x[0] == 'call' and x[1].rsplit('::', 1)[-1] in ('len', 'count') for x in walk(e)):
                        framed = True
            r.site('%s: loop over child sources - element count %s' % (b.path, 'hashed' if framed else 'not hashed'), elems[0][1]['s'],
                   'ok' if framed else 'violation')
            if not framed:
                r.violation('%s:unframed' % b.path, elems[0][1]['s'], b.path,
                            'the impl hashes a type tag and then each child, but neither the number of children nor a terminator: the end '
                            'of a nested (boxed) child list is not encoded, so Concat[Replace{insert(3,"X")}(Concat["ab","cd"])] (text '
                            '"abcXd") and Concat[Replace{insert(3,"X")}(Concat["ab"]), "cd"] (text "abXcd") feed every hasher the '
                            'identical call sequence and always collide')
    if not r.sites:
        r.info('no hand-written Hash impl loops over child sources')
    return r
