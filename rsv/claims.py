"""What MANIFEST.json says per property.  A property is claimed only through rules that exist in
registry.PROPERTY_RULES; everything else is listed not_applicable with the reason."""

NOTE = ('Trusted base: nightly rustc front end + MIR construction (the analysed MIR is nightly\'s, the shipped '
        'crate is built by the pinned 1.83; rules speak about source-level structure both agree on), the '
        'rsv-driver fact extractor, the python rule engine, and the std/dashmap/itertools API contracts named per '
        'rule in DESIGN §7c. lib target, cfg(not(test)), default features. The rules decide the named structural '
        'clauses only, not the behaviour.')

CLAIMS = {
    'C05': dict(
        category='other',
        text='Static, for every history: the clause "the result depends only on the inner source and the sequence of '
             'replace/insert calls, never on which observers were called in between" and the ordering key. Decided on '
             'MIR: every mutation of the replacement list is post-dominated by a reset of the sorted-flag (RESET); the '
             'flag is published true only after an index computed from the current list is stored, constructors start '
             'sorted only when empty (FRESH); every order-sensitive reader goes through the freshened, locked index '
             '(ORDERED-READ); the sort is stable with key (start,end,enforce) derived from the public mutator\'s '
             'parameters and Pre<Normal<Post (SORTKEY); mutation needs &mut (W-MUT compile-fail witness). NOT decided: '
             'the splice loops (copy/emit/consume arithmetic, clamping).',
        technique='MIR post-dominator / dominator / def-use rules over resolved callees and field accesses + '
                  'compile-fail witness',
        design_ref='§5 C05'),
}

NOT_APPLICABLE = {
    'C02': 'line/column bookkeeping is arithmetic over the runtime text (six update paths of a running offset state '
           'machine); no sound static argument in reach bounds it and no necessary structural clause exists that is '
           'not a frozen source fragment',
    'C03': 'agreement, for every tree and position, of the final-source path feeding the encoder with the normal '
           'streaming path: needs executing both paths; no shape-of-code clause',
    'C16': 'equivalence of ~20 rope observers to the flat string is functional correctness of loops over pieces and '
           'binary searches; the representation invariants it would rest on are not maintained by the code today, so '
           'no invariant check is a necessary condition (the one memory-safety consequence is claimed under C19)',
}

PENDING = 'static rule set for this property is not built yet in this tree (see DESIGN §8 build order)'
