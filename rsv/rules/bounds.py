"""INDEX-GUARDED (C17): every panicking `container[usize]` access is preceded, on every path, by facts that bound the index by
that container's length.  Forward abstract interpretation of each MIR body in the zone domain (difference constraints
x - y <= c), no execution.

  location   canonical memory location of a MIR place: (root local, field names ...) with derefs dropped and single-def
             reference temps replaced by what they point to (Rust's `&mut` uniqueness makes distinct locations non-aliasing)
  variables  ('loc', location) integer-valued locations (incl. MIR temps), ('len', location) the length of a container, 'Z' = 0
  transfer   x = y (+|-) c, casts that preserve the value, len(), is_empty(), resize(), growth-only calls (push ...), min / max /
             saturating_sub, a successful index; every other write / `&mut` hand-out / call of a closure that captured the
             location mutably forgets what is known about it;  switch edges add the branch condition
  join       intersection of the closed constraint sets (pointwise max); widening drops constraints that keep growing
"""
from ..core import RuleResult

MAX_CHAIN = 14
VIEW_CALLS = {'deref', 'deref_mut', 'as_slice', 'as_mut_slice', 'as_ref', 'as_mut', 'borrow', 'borrow_mut', 'as_bytes', 'as_str',
              'as_mut_vec', 'as_deref', 'as_bytes_mut', 'clone'}
PTR_PREFIX = ('&', '*const', '*mut', 'std::boxed::Box', 'std::rc::Rc', 'std::sync::Arc')


def _single_def(b, l):
    if b.is_arg(l):
        return None
    ds = b.whole_defs(l)
    if len(ds) != 1:
        return None
    for pt, k, st in b.defs(l):
        pr = (st['p'] if k == 'assign' else st['dest'])['pr']
        if pr and pr[0] != '*':
            return None     # a field of the local itself is assigned separately
    return ds[0]


def loc_of_place(b, p, depth=0):
    if depth > MAX_CHAIN:
        return None
    l = p['l']
    tail = []
    for x in p['pr']:
        if x == '*':
            continue
        if isinstance(x, dict) and 'f' in x:
            tail.append(('f', x.get('n', x['f'])))
        elif isinstance(x, dict) and 'dc' in x:
            tail.append(('dc', x['dc']))
        elif isinstance(x, dict) and 'ci' in x:
            tail.append(('ci', x['ci']))
        else:
            return None
    head = (l,)
    d = _single_def(b, l)
    if d is not None and b.local_ty(l).startswith(PTR_PREFIX):
        pt, k, s = d
        src = None
        if k == 'assign':
            r = s['r']
            if r['k'] in ('ref', 'addr', 'rawptr'):
                src = r['p']
            elif r['k'] in ('use', 'cast') and r['o']['k'] in ('copy', 'move'):
                src = r['o']['p']
        elif k == 'call':
            c = s.get('callee')
            if c and c['name'] in VIEW_CALLS and s['args'] and s['args'][0]['k'] in ('copy', 'move'):
                src = s['args'][0]['p']
            elif c and len(s['args']) == 1 and s['args'][0]['k'] in ('copy', 'move') and b.facts is not None:
                g = getter_path(b.facts, c.get('resolved') or c.get('path'))
                if g is not None:
                    h = loc_of_place(b, s['args'][0]['p'], depth + 1)
                    if h is None:
                        return None
                    return tuple(h) + g + tuple(tail)
        if src is not None:
            h = loc_of_place(b, src, depth + 1)
            if h is None:
                return None
            head = h
    return tuple(head) + tuple(tail)


_GETTERS = {}


def getter_path(facts, key):
    """field path returned by a crate-local accessor `fn f(&self) -> &Field` (a reference into its only argument), else None"""
    ck = (id(facts), key)
    if ck in _GETTERS:
        return _GETTERS[ck]
    _GETTERS[ck] = None
    cb = facts.body(key) if key else None
    if cb is not None and cb.promoted is None and cb.arg_count == 1 and cb.local_ty(0).startswith('&') and cb.d['kind'] != 'Closure':
        h = loc_of_place(cb, {'l': 0, 'pr': []})
        if h is not None and h[0] == 1 and len(cb.defs(0)) == 1:
            _GETTERS[ck] = tuple(h[1:])
    return _GETTERS[ck]


def related(a, c):
    n = min(len(a), len(c))
    return a[:n] == c[:n]


def _only_incremented(cb, loc):
    """every write to `loc` in body cb is `loc = loc + k` with a constant k >= 0 (also through the checked-add tuple), and no
    `&mut` to it is handed to a call"""
    for pt, s in cb.points():
        if s['k'] == 'assign' and s['p']['pr']:
            d = loc_of_place(cb, s['p'])
            if d != loc:
                if d is not None and related(d, loc):
                    return False
                continue
            r = s['r']
            src = None
            if r['k'] == 'bin':
                src = r
            elif r['k'] == 'use' and r['o']['k'] in ('copy', 'move') and r['o']['p']['pr'] and not any(x == '*' for x in r['o']['p']['pr'][:1]) \
                    and isinstance(r['o']['p']['pr'][0], dict) and r['o']['p']['pr'][0].get('f') == 0:
                dd = _single_def(cb, r['o']['p']['l'])
                if dd is not None and dd[1] == 'assign' and dd[2]['r']['k'] == 'bin':
                    src = dd[2]['r']
            if src is None or src['op'].replace('WithOverflow', '') != 'Add':
                return False
            a, b_ = src['a'], src['b']
            if not (b_['k'] == 'const' and isinstance(b_.get('int'), int) and b_['int'] >= 0 and a['k'] in ('copy', 'move')
                    and loc_of_place(cb, a['p']) == loc):
                return False
        elif s['k'] == 'call':
            for a in s['args']:
                if a['k'] in ('copy', 'move'):
                    ty = cb.local_ty(a['p']['l']) if not a['p']['pr'] else (a['p'].get('ty') or '')
                    if ty.startswith('&mut'):
                        d = loc_of_place(cb, a['p'])
                        if d is not None and related(d, loc):
                            return False
    return True


def _touches(cb, loc):
    for pt, s in cb.points():
        places = []
        if s['k'] == 'assign':
            places.append(s['p'])
        for pl in places:
            d = loc_of_place(cb, pl)
            if d is not None and related(d, loc):
                return True
    return False


def captured_by(b):
    """closure local -> locations it captures by mutable reference (a call that receives the closure may write them)"""
    out = {}
    for pt, s in b.points():
        if s['k'] == 'assign' and s['r']['k'] == 'agg' and s['r'].get('ak') == 'closure' and not s['p']['pr']:
            for o in s['r']['ops']:
                if o['k'] in ('copy', 'move'):
                    ty = b.local_ty(o['p']['l']) if not o['p']['pr'] else (o['p'].get('ty') or '')
                    if ty.startswith('&mut'):
                        d = loc_of_place(b, o['p'])
                        if d is not None:
                            out.setdefault(s['p']['l'], set()).add(d)
    return out


def captured_monotone(b):
    """(closure local, captured location) pairs where the closure (and its nested closures) only ever increases the location"""
    out = set()
    if b.facts is None:
        return out
    for pt, s in b.points():
        if s['k'] == 'assign' and s['r']['k'] == 'agg' and s['r'].get('ak') == 'closure' and not s['p']['pr']:
            cb = b.facts.body(s['r'].get('path'))
            ups = (cb.d.get('upvars') or []) if cb is not None else []
            for k, o in enumerate(s['r']['ops']):
                if k < len(ups) and o['k'] in ('copy', 'move'):
                    d = loc_of_place(b, o['p'])
                    C = (1, ('f', ups[k]['n']))
                    if d is not None and _only_incremented(cb, C) and not any(_touches(cc, C) for cc in b.facts.closures_of(cb)):
                        out.add((s['p']['l'], d))
    return out


def point_writes(b, s, loc, caps):
    if s['k'] == 'assign':
        if not s['p']['pr']:
            d = (s['p']['l'],)
        else:
            d = loc_of_place(b, s['p'])
            if d is None:
                d = loc_of_place(b, {'l': s['p']['l'], 'pr': []}) or (s['p']['l'],)
        return related(d, loc)
    if s['k'] == 'call':
        if not s['dest']['pr']:
            d = (s['dest']['l'],)
        else:
            d = loc_of_place(b, s['dest']) or (s['dest']['l'],)
        if related(d, loc):
            return True
        for a in s['args']:
            if a['k'] not in ('copy', 'move'):
                continue
            ty = b.local_ty(a['p']['l']) if not a['p']['pr'] else (a['p'].get('ty') or '')
            d = loc_of_place(b, a['p'])
            if ty.startswith('&mut') or ty.startswith('*mut'):
                if d is None or related(d, loc):
                    return True
            # a closure (or a reference to one) that captured the location mutably
            if d is not None:
                for cl, locs in caps.items():
                    if d[0] == cl and any(related(x, loc) for x in locs):
                        return True
        return False
    return False


def writes_between(b, loc, pt_from, pt_to, caps):
    """may `loc` be written on a path from pt_from (exclusive) to pt_to (exclusive) that does not pass pt_from again?"""
    b1, i1 = pt_from
    b2, i2 = pt_to

    def scan(bb, lo, hi):
        items = b.stmts(bb) + [b.term(bb)]
        for i in range(max(lo, 0), min(hi, len(items))):
            if point_writes(b, items[i], loc, caps):
                return True
        return False
    if b1 == b2 and i1 < i2:
        return scan(b1, i1 + 1, i2)
    fwd, st = set(), list(b.succs(b1))
    while st:
        x = st.pop()
        if x in fwd:
            continue
        fwd.add(x)
        if x != b1:
            st.extend(b.succs(x))
    if b2 not in fwd:
        return True
    back, st = set(), [b2]
    while st:
        x = st.pop()
        if x in back:
            continue
        back.add(x)
        if x != b1:
            st.extend(b.preds(x))
    region = (fwd & back) - {b1}
    if scan(b1, i1 + 1, 10 ** 9):
        return True
    for x in region:
        if x == b2:
            if scan(b2, 0, i2):
                return True
            if any(y in region for y in b.succs(b2)) and scan(b2, i2, 10 ** 9):
                return True
        elif scan(x, 0, 10 ** 9):
            return True
    return False



Z = 'Z'
INT_TYS = {'u8': 2**8 - 1, 'u16': 2**16 - 1, 'u32': 2**32 - 1, 'u64': 2**64 - 1, 'usize': 2**64 - 1,
           'i8': None, 'i16': None, 'i32': None, 'i64': None, 'isize': None, 'u128': None, 'i128': None}
UNSIGNED_BITS = {'u8': 8, 'u16': 16, 'u32': 32, 'u64': 64, 'usize': 64}
GROW_CALLS = {'push', 'push_str', 'push_back', 'push_front', 'extend', 'extend_from_slice', 'insert', 'reserve', 'append',
              'extend_from_within', 'insert_str'}
PURE_CALLS = {'len', 'is_empty', 'index', 'get', 'first', 'last', 'iter', 'as_ref', 'deref', 'as_str', 'as_bytes', 'clone',
              'eq', 'ne', 'cmp', 'partial_cmp', 'lt', 'le', 'gt', 'ge', 'min', 'max', 'saturating_sub', 'contains', 'starts_with',
              'ends_with', 'to_string', 'to_owned', 'into', 'from', 'borrow', 'as_slice', 'is_some', 'is_none', 'copied', 'cloned'}


GLO = ('loc', ('$lo',))
GHI = ('loc', ('$hi',))


class Zone:
    """sparse difference constraints: e[(y, x)] = c  means  x - y <= c"""
    __slots__ = ('e', 'bottom')

    def __init__(self, e=None):
        self.e = dict(e) if e else {}
        self.bottom = False

    def copy(self):
        z = Zone(self.e)
        z.bottom = self.bottom
        return z

    def add(self, x, y, c):
        """x - y <= c"""
        if x == y:
            if c < 0:
                self.bottom = True
            return
        k = (y, x)
        o = self.e.get(k)
        if o is None or c < o:
            self.e[k] = c

    def vars(self):
        out = set()
        for (y, x) in self.e:
            out.add(x)
            out.add(y)
        return out

    def forget(self, v, connect=True):
        ins = [(y, c) for (y, x), c in self.e.items() if x == v]
        outs = [(x, c) for (y, x), c in self.e.items() if y == v]
        for y, _ in ins:
            del self.e[(y, v)]
        for x, _ in outs:
            del self.e[(v, x)]
        if connect and len(ins) * len(outs) <= 400:
            for y, c1 in ins:
                for x, c2 in outs:
                    if x != y:
                        self.add(x, y, c1 + c2)

    def forget_upper(self, v):
        """v may have grown: constraints  v - y <= c  are lost, x - v <= c stay"""
        # first push what is known through v so that derived facts survive
        ins = [(y, c) for (y, x), c in self.e.items() if x == v]
        outs = [(x, c) for (y, x), c in self.e.items() if y == v]
        for y, c1 in ins:
            for x, c2 in outs:
                if x != y:
                    self.add(x, y, c1 + c2)
        for y, _ in ins:
            del self.e[(y, v)]

    def assign(self, x, y, c):
        """x := y + c"""
        if x == y:
            if c == 0:
                return
            ne = {}
            for (a, b_), w in self.e.items():
                if b_ == x:
                    ne[(a, b_)] = w + c
                elif a == x:
                    ne[(a, b_)] = w - c
                else:
                    ne[(a, b_)] = w
            self.e = ne
            return
        self.forget(x)
        self.add(x, y, c)
        self.add(y, x, -c)

    def bound(self, x, y):
        """least c with x - y <= c derivable, or None (Bellman-Ford from y)"""
        if x == y:
            return 0
        adj = {}
        for (a, b_), w in self.e.items():
            adj.setdefault(a, []).append((b_, w))
        dist = {y: 0}
        frontier = [y]
        n = len(adj) + 2
        for _ in range(n):
            nxt = []
            for u in frontier:
                du = dist[u]
                for v, w in adj.get(u, ()):
                    nd = du + w
                    if v not in dist or nd < dist[v]:
                        dist[v] = nd
                        nxt.append(v)
            if not nxt:
                break
            frontier = nxt
        else:
            self.bottom = True
        return dist.get(x)

    def consistent(self):
        """False (and bottom) when the constraints have a negative cycle"""
        if self.bottom:
            return False
        vs = list(self.vars())
        dist = {v: 0 for v in vs}
        edges = list(self.e.items())
        for i in range(len(vs) + 1):
            changed = False
            for (y, x), c in edges:
                nd = dist[y] + c
                if nd < dist[x]:
                    dist[x] = nd
                    changed = True
            if not changed:
                return True
        self.bottom = True
        return False

    def closed(self, keep=None):
        """all-pairs closure restricted to `keep` variables (dict (y, x) -> c)"""
        vs = sorted(self.vars() if keep is None else (self.vars() & keep), key=repr)
        d = {}
        for (y, x), c in self.e.items():
            d[(y, x)] = c
        allv = sorted(self.vars(), key=repr)
        for k in allv:
            ink = [(i, d[(i, k)]) for i in allv if (i, k) in d]
            outk = [(j, d[(k, j)]) for j in allv if (k, j) in d]
            for i, c1 in ink:
                for j, c2 in outk:
                    if i == j:
                        if c1 + c2 < 0:
                            self.bottom = True
                        continue
                    o = d.get((i, j))
                    if o is None or c1 + c2 < o:
                        d[(i, j)] = c1 + c2
        if keep is not None:
            d = {k: c for k, c in d.items() if k[0] in keep and k[1] in keep}
        return d


BOTTOM = Zone()
BOTTOM.bottom = True


def _typed_nonneg(z):
    """variables that carry their own unsigned type (a length; the value of an `as uN` cast of a location): >= 0 in every state"""
    return {v for v in z.vars() if v != Z and (v[0] == 'len' or (v[0] == 'loc' and v[1] and isinstance(v[1][-1], tuple)
                                                                and v[1][-1][0] == 'cast' and v[1][-1][1] in UNSIGNED_BITS))}


def join(a, b_, keep):
    if a.bottom:
        return b_.copy()
    if b_.bottom:
        return a.copy()
    tv = _typed_nonneg(a) | _typed_nonneg(b_)
    if tv:
        a, b_ = a.copy(), b_.copy()
        for v in tv:
            a.add(Z, v, 0)
            b_.add(Z, v, 0)
    da, db = a.closed(keep), b_.closed(keep)
    if a.bottom:
        return b_.copy()
    if b_.bottom:
        return a.copy()
    out = Zone()
    for k, c in da.items():
        c2 = db.get(k)
        if c2 is not None:
            out.e[k] = max(c, c2)
    return out


def leq(a, b_):
    """a is at least as strong as b (every constraint of b is implied syntactically by a)"""
    if a.bottom:
        return True
    if b_.bottom:
        return False
    for k, c in b_.e.items():
        o = a.e.get(k)
        if o is None or o > c:
            return False
    return True


class BoundsAnalysis:
    def __init__(self, facts, body, getters=None):
        self.f = facts
        self.b = body
        self.caps = captured_by(body)
        self.mono_caps = captured_monotone(body)
        self.getters = getters or {}
        self.cmp = {}          # bool local -> (op, xvar/const, yvar/const)
        self.sites = {}
        self._live = None
        self.closure_made = {}     # creation point -> (closure path, projected entry zone)
        self.closure_local = {}    # local holding a closure -> (creation point, aggregate)
        self.entry = None          # entry zone (closures: facts about immutably captured locations)
        self.calls_made = {}       # crate-local callee key -> [projected zone per call site]
        self.arith = {}            # point -> verdict for Overflow / division asserts
        self.tainted = set()       # variables computed by a subtraction that is not known to stay >= 0 (wraps in release builds)
        self.summaries = {}        # crate-local callee key -> exit zone over its parameters / return value (see exit_summary)
        self.clamps = {}           # point of a `clamp(min, max)` call -> verdict for its `min <= max` assertion
        self.slices = {}           # point of a `byte_slice(start..end)` call -> verdict for `start <= end`
        self._exit = {}            # return block -> state at the return

    # ---- variables
    def is_int(self, ty):
        return ty in INT_TYS

    def var_of_place(self, p):
        k = loc_of_place(self.b, p)
        if k is None:
            return None
        return ('loc', k)

    def operand(self, o):
        """(var, const offset) or None"""
        if o['k'] == 'const':
            if 'int' in o:
                return (Z, o['int'])
            if 'bool' in o:
                return (Z, 1 if o['bool'] else 0)
            return None
        if o['k'] in ('copy', 'move'):
            v = self.var_of_place(o['p'])
            if v is None:
                return None
            return (v, 0)
        return None

    def origin(self, z, o, v):
        """the location a temp was copied from, if the state still knows they are equal (else the temp itself)"""
        b = self.b
        cur = o
        for _ in range(6):
            if cur['k'] not in ('copy', 'move') or cur['p']['pr']:
                break
            d = _single_def(b, cur['p']['l'])
            if d is None or d[1] != 'assign' or d[2]['r']['k'] != 'use':
                break
            cur = d[2]['r']['o']
        if cur is o or cur['k'] not in ('copy', 'move'):
            return v
        w = self.var_of_place(cur['p'])
        if w is None or w == v:
            return v
        zz = z.copy()
        if zz.bound(v, w) == 0 and zz.bound(w, v) == 0:
            return w
        return v

    def operand_ty(self, o):
        if o['k'] in ('copy', 'move'):
            return o['p'].get('ty') if o['p']['pr'] else self.b.local_ty(o['p']['l'])
        return o.get('ty')

    def container_var(self, o):
        if o['k'] not in ('copy', 'move'):
            return None
        k = loc_of_place(self.b, o['p'])
        if k is None:
            return None
        return ('len', k)

    # ---- kills
    def kill_related(self, z, loc, grow_only=False):
        for v in list(z.vars()):
            if v == Z:
                continue
            if related(v[1], loc):
                if v[0] == 'len' and grow_only:
                    z.forget_upper(v)
                elif v[0] == 'loc' and grow_only:
                    continue
                else:
                    z.forget(v)
        for l, info in list(self.cmp.items()):
            for t in info[1:]:
                if isinstance(t, tuple) and t[0] != Z and isinstance(t[0], tuple) and related(t[0][1], loc):
                    if not (grow_only and t[0][0] == 'loc'):
                        self.cmp.pop(l, None)

    def set_var(self, z, x, src):
        """x := src (var, off) or forget"""
        if src is None:
            self.kill_related(z, x[1])
            return
        y, c = src
        if y in self.tainted:
            self.tainted.add(x)
        # writing x invalidates everything below / above it first (other than x itself)
        for v in list(z.vars()):
            if v != Z and v != x and v != y and related(v[1], x[1]):
                z.forget(v)
        for l, info in list(self.cmp.items()):
            for t in info[1:]:
                if isinstance(t, tuple) and t[0] == x:
                    self.cmp.pop(l, None)
        z.assign(x, y, c)

    # ---- transfer
    def stmt(self, z, s, pt):
        b = self.b
        if s['k'] != 'assign':
            return
        dest = s['p']
        r = s['r']
        dty = dest.get('ty') if dest['pr'] else b.local_ty(dest['l'])
        if not dest['pr']:
            x = ('loc', (dest['l'],))
        else:
            x = self.var_of_place(dest)
        if x is None:
            base = loc_of_place(b, {'l': dest['l'], 'pr': []}) or (dest['l'],)
            self.kill_related(z, base)
            return
        if not dest['pr'] and _is_ptr_temp(b, dest['l']):
            return      # (re)binding a single-def reference temp: no memory effect
        self.cmp.pop(dest['l'], None) if not dest['pr'] else None
        if dty == 'bool':
            self.kill_related(z, x[1])
            if r['k'] == 'bin' and r['op'] in ('Lt', 'Le', 'Gt', 'Ge', 'Eq', 'Ne'):
                A, B = self.operand(r['a']), self.operand(r['b'])
                if A is not None and B is not None and not dest['pr'] and self.operand_ty(r['a']) in INT_TYS:
                    self.cmp[dest['l']] = (r['op'], A, B)
            elif r['k'] == 'un' and r['op'] == 'Not' and r['o']['k'] in ('copy', 'move') and not r['o']['p']['pr'] and not dest['pr']:
                info = self.cmp.get(r['o']['p']['l'])
                if info:
                    self.cmp[dest['l']] = (NEG[info[0]], info[1], info[2])
            elif r['k'] == 'use' and r['o']['k'] in ('copy', 'move') and not r['o']['p']['pr'] and not dest['pr']:
                info = self.cmp.get(r['o']['p']['l'])
                if info:
                    self.cmp[dest['l']] = info
            elif r['k'] == 'use' and r['o']['k'] == 'const' and 'bool' in r['o']:
                z.assign(x, Z, 1 if r['o']['bool'] else 0)
            return
        if dty in INT_TYS:
            if r['k'] == 'use':
                self.set_var(z, x, self.operand(r['o']))
                return
            if r['k'] == 'cast' and r['ck'] == 'IntToInt':
                fty = r.get('from_ty')
                if fty in UNSIGNED_BITS and dty in UNSIGNED_BITS and UNSIGNED_BITS[fty] <= UNSIGNED_BITS[dty]:
                    self.set_var(z, x, self.operand(r['o']))
                    z.add(x, Z, 2 ** UNSIGNED_BITS[fty] - 1)
                    z.add(Z, x, 0)
                elif fty in UNSIGNED_BITS and dty in ('i16', 'i32', 'i64', 'isize', 'i128') and \
                        UNSIGNED_BITS[fty] < {'i16': 16, 'i32': 32, 'i64': 64, 'isize': 64, 'i128': 128}[dty]:
                    self.set_var(z, x, self.operand(r['o']))
                    z.add(x, Z, 2 ** UNSIGNED_BITS[fty] - 1)
                    z.add(Z, x, 0)
                elif fty in ('i8', 'i16', 'i32', 'i64', 'isize') and dty in UNSIGNED_BITS and self._nonneg_fits(z, r['o'], fty, dty):
                    # a signed value known to be >= 0 (and small enough) keeps its value
                    self.set_var(z, x, self.operand(r['o']))
                    z.add(Z, x, 0)
                else:
                    # not value preserving, but a function of its operand: two casts of the same unchanged location agree
                    src = self.operand(r['o'])
                    if src is not None and src[0] != Z and src[1] == 0 and src[0][0] == 'loc':
                        root = self.origin(z, r['o'], src[0])
                        sh = ('loc', root[1] + (('cast', dty),))
                        self.set_var(z, x, (sh, 0))
                    else:
                        self.set_var(z, x, None)
                    if dty in UNSIGNED_BITS:
                        z.add(Z, x, 0)
                        if fty in UNSIGNED_BITS and src is not None and src[0] not in self.tainted:
                            # truncation of an unsigned value never increases it
                            z.add(x, src[0], src[1])
                return
            if r['k'] == 'bin':
                self.assign_bin(z, x, r)
                return
            if r['k'] == 'un' and r['op'] == 'PtrMetadata' and r['o']['k'] in ('copy', 'move') and not r['o']['p']['pr']:
                self.set_var(z, x, None)
                d = _single_def(b, r['o']['p']['l'])
                if d is not None and d[1] == 'assign' and d[2]['r']['k'] == 'use' and d[2]['r']['o']['k'] == 'const' \
                        and isinstance(d[2]['r']['o'].get('bytes'), list):
                    z.assign(x, Z, len(d[2]['r']['o']['bytes']))
                else:
                    ck = loc_of_place(b, r['o']['p'])
                    if ck:
                        z.assign(x, ('len', ck), 0)
                return
            if r['k'] in ('len', 'ptrmeta'):
                pl = r.get('p') or (r.get('o') or {}).get('p')
                self.set_var(z, x, None)
                if pl:
                    ck = loc_of_place(b, pl)
                    if ck:
                        z.assign(x, ('len', ck), 0)
                return
            self.set_var(z, x, None)
            return
        if dty and dty.startswith('(') and r['k'] == 'bin' and r['op'].endswith('WithOverflow'):
            # (value, overflowed): model the mathematical value (the overflow assert / wrap is not decided here)
            self.kill_related(z, x[1])
            self.assign_bin(z, ('loc', x[1] + (('f', 0),)), r)
            return
        # a non-integer destination: whatever was known below it is gone
        self.kill_related(z, x[1])
        if r['k'] == 'agg' and r.get('ak') == 'closure' and not dest['pr']:
            self.closure_made[pt] = (r.get('path'), self.project(z, r))
            self.closure_local[dest['l']] = (pt, r)
            return
        if r['k'] == 'agg' and r.get('ak') in ('tuple', 'adt') and r.get('ops'):
            names = r.get('fields') or list(range(len(r['ops'])))
            if r.get('ak') == 'tuple':
                names = list(range(len(r['ops'])))
            if len(names) == len(r['ops']) and not (r.get('path') or '').endswith('Option'):
                for n, o in zip(names, r['ops']):
                    if self.operand_ty(o) in INT_TYS:
                        src = self.operand(o)
                        if src is not None:
                            z.assign(('loc', x[1] + (('f', n),)), src[0], src[1])

    def _nonneg_fits(self, z, o, fty, dty):
        src = self.operand(o)
        if src is None:
            return False
        if src[0] == Z:
            return 0 <= src[1] < 2 ** UNSIGNED_BITS[dty]
        zz = z.copy()
        lb = zz.bound(Z, src[0])
        if lb is None or -lb + src[1] < 0:
            return False
        sbits = {'i8': 7, 'i16': 15, 'i32': 31, 'i64': 63, 'isize': 63}[fty]
        if sbits <= UNSIGNED_BITS[dty]:
            return True
        ub = zz.bound(src[0], Z)
        return ub is not None and ub + src[1] < 2 ** UNSIGNED_BITS[dty]

    def assign_bin(self, z, x, r):
        op = r['op'].replace('WithOverflow', '').replace('Unchecked', '')
        A, B = self.operand(r['a']), self.operand(r['b'])
        checked = r['op'].endswith('WithOverflow')
        tyA = self.operand_ty(r['a'])
        if op in ('Add', 'Sub') and A is not None and B is not None:
            if B[0] == Z:
                # does the operation stay inside the type?  (checked arithmetic panics otherwise — the value is then never used —
                # unchecked arithmetic wraps: an underflowed `a - c` is huge, an overflowed `a + c` small)
                safe = True
                if tyA in UNSIGNED_BITS and A[0] != Z:
                    zz = z.copy()
                    if op == 'Sub' and B[1] > 0:
                        lb = zz.bound(Z, A[0])                 # 0 - a <= lb   ->  a >= -lb
                        safe = lb is not None and (-lb + A[1]) >= B[1]
                    elif op == 'Add' and B[1] > 0:
                        ub = zz.bound(A[0], Z)
                        safe = ub is not None and ub + A[1] + B[1] <= 2 ** UNSIGNED_BITS[tyA] - 1
                self.set_var(z, x, (A[0], A[1] + (B[1] if op == 'Add' else -B[1])))
                if not safe:
                    if op == 'Sub':
                        self.tainted.add(x)                    # an index built from it may be a wrapped value
                    if not checked and op == 'Sub':
                        # an underflowed `a - c` wraps to a huge value: its upper bounds are gone
                        z.e = {k: c for k, c in z.e.items() if k[1] != x}
                    # an unchecked `a + c` with a small constant is kept exact: wrapping it needs 2^32 (2^64) increments, i.e. an
                    # input of more than 4 GiB — the input-size assumption DECODER-TOTAL states; overflow-checked builds panic there
                    # instead, which the arithmetic rules (not the index rule) look at
                return
            if A[0] == Z and op == 'Add':
                self.set_var(z, x, (B[0], B[1] + A[1]))
                return
            # x = a - b with unsigned b: x <= a ; x = a + b: x >= a, x >= b   (only when the operation cannot wrap)
            ty = self.operand_ty(r['a'])
            safe = checked
            if ty in UNSIGNED_BITS and op == 'Sub':
                zz = z.copy()
                bd = zz.bound(B[0], A[0]) if B[0] != A[0] else 0
                proven = bd is not None and bd + B[1] - A[1] <= 0
                if not proven:
                    self.tainted.add(x)
                safe = checked or proven
            self.set_var(z, x, None)
            if ty in UNSIGNED_BITS and safe:
                if op == 'Sub':
                    z.add(x, A[0], A[1])
                elif checked:
                    z.add(A[0], x, -A[1])
                    z.add(B[0], x, -B[1])
            return
        ty = self.operand_ty(r['a'])
        if op == 'Shl' and B is not None and B[0] == Z and ty in UNSIGNED_BITS and 0 <= B[1] < UNSIGNED_BITS[ty] and \
                not (A is not None and A[0] == Z):
            self.set_var(z, x, None)
            z.add(x, Z, 2 ** UNSIGNED_BITS[ty] - 2 ** B[1])
            z.add(Z, x, 0)
            return
        if op == 'BitOr' and A is not None and B is not None and ty in UNSIGNED_BITS and A[0] == x:
            # x |= b : x grows by at most ub(b)
            zz = z.copy()
            ub = B[1] if B[0] == Z else (None if zz.bound(B[0], Z) is None else zz.bound(B[0], Z) + B[1])
            if ub is not None:
                ne = {}
                for (a_, b_), w in z.e.items():
                    if b_ == x:
                        ne[(a_, b_)] = w + ub       # x - a <= w  ->  x' - a <= w + ub
                    elif a_ == x:
                        ne[(a_, b_)] = w            # b - x <= w  stays (x' >= x)
                    else:
                        ne[(a_, b_)] = w
                z.e = ne
                if B[0] == Z:
                    z.add(Z, x, -B[1])              # x | c >= c
                else:
                    lb = zz.bound(Z, B[0])
                    if lb is not None:
                        z.add(Z, x, lb - B[1])
                return
        self.set_var(z, x, None)
        if A is not None and B is not None and A[0] == Z and B[0] == Z and op in ('Shl', 'Mul', 'Shr', 'BitOr', 'BitAnd') \
                and ty in UNSIGNED_BITS:
            v = {'Shl': A[1] << B[1] if 0 <= B[1] < 64 else None, 'Mul': A[1] * B[1], 'Shr': A[1] >> B[1] if 0 <= B[1] < 64 else None,
                 'BitOr': A[1] | B[1], 'BitAnd': A[1] & B[1]}[op]
            if v is not None and v < 2 ** UNSIGNED_BITS[ty]:
                z.assign(x, Z, v)
                return
        if op == 'BitOr' and A is not None and B is not None and ty in UNSIGNED_BITS:
            # a | b <= a + b
            zz = z.copy()
            ub = B[1] if B[0] == Z else (None if zz.bound(B[0], Z) is None else zz.bound(B[0], Z) + B[1])
            if ub is not None:
                z.add(x, A[0], A[1] + ub)
            z.add(Z, x, 0)
            # a | b >= max(a, b): take the better of the two known lower bounds
            for T in (A, B):
                if T[0] == Z:
                    z.add(Z, x, -T[1])
                else:
                    lb = zz.bound(Z, T[0])          # 0 - t <= lb  ->  t >= -lb
                    if lb is not None:
                        z.add(Z, x, lb - T[1])
            return
        if op in ('Div', 'Shr', 'BitAnd', 'Rem') and A is not None and ty in UNSIGNED_BITS:
            if op == 'Rem' and B is not None and B[0] == Z and B[1] > 0:
                z.add(x, Z, B[1] - 1)
            elif op == 'BitAnd' and B is not None and B[0] == Z:
                z.add(x, Z, B[1])
            else:
                z.add(x, A[0], A[1])
            z.add(Z, x, 0)

    def call(self, z, t, pt):
        """state on the normal-return edge"""
        b = self.b
        c = t.get('callee') or {}
        name = c.get('name')
        args = t['args']
        dest = t['dest']
        dty = dest.get('ty') if dest['pr'] else b.local_ty(dest['l'])
        dx = ('loc', (dest['l'],)) if not dest['pr'] else self.var_of_place(dest)
        arg0_mut = False
        # effects on memory reachable through `&mut` arguments and captured locations
        local_callee = self.f.body(c.get('resolved') or c.get('path')) if c else None
        for i, a in enumerate(args):
            if a['k'] not in ('copy', 'move'):
                continue
            ty = self.operand_ty(a) or ''
            d = loc_of_place(b, a['p'])
            if ty.startswith('&mut') or ty.startswith('*mut'):
                if d is None:
                    d = (a['p']['l'],)
                if i == 0 and name in GROW_CALLS and local_callee is None:
                    self.kill_related(z, d, grow_only=True)
                elif i == 0 and name in ('resize', 'resize_with') and local_callee is None and len(args) >= 2:
                    n = self.operand(args[1])
                    self.kill_related(z, d)
                    if n is not None:
                        z.assign(('len', d), n[0], n[1])
                elif name in ('index_mut', 'get_mut', 'iter_mut', 'as_mut', 'deref_mut', 'as_mut_slice', 'last_mut', 'first_mut') \
                        and local_callee is None:
                    # hands out element references: elements may change, the length cannot
                    for v in list(z.vars()):
                        if v != Z and v[0] == 'loc' and related(v[1], d) and len(v[1]) > len(d):
                            z.forget(v)
                else:
                    self.kill_related(z, d)
            if d is not None:
                for cl, locs in self.caps.items():
                    if d[0] == cl:
                        for x in locs:
                            if (cl, x) in self.mono_caps and ('loc', x) in z.vars():
                                # the closure only ever increases this counter: what bounded it from below still does
                                z.forget_upper(('loc', x))
                                for v in list(z.vars()):
                                    if v != Z and v != ('loc', x) and related(v[1], x):
                                        z.forget(v)
                                for l_, info in list(self.cmp.items()):
                                    if any(isinstance(t_, tuple) and t_[0] != Z and isinstance(t_[0], tuple) and related(t_[0][1], x)
                                           for t_ in info[1:]):
                                        self.cmp.pop(l_, None)
                            else:
                                self.kill_related(z, x)
        if local_callee is not None and local_callee.d['kind'] != 'Closure':
            self.calls_made.setdefault(local_callee.key, []).append(self.project_call(z, t, local_callee))
        if name == 'then' and len(args) == 2 and args[0]['k'] in ('copy', 'move') and not args[0]['p']['pr'] \
                and args[1]['k'] in ('copy', 'move') and not args[1]['p']['pr'] and local_callee is None:
            info = self.cmp.get(args[0]['p']['l'])
            made = self.closure_local.get(args[1]['p']['l'])
            if info is not None and made is not None:
                z2 = z.copy()
                self.refine(z2, info, True)
                self.closure_made[made[0]] = (made[1].get('path'), self.project(z2, made[1]))
        if dx is None:
            self.kill_related(z, loc_of_place(b, {'l': dest['l'], 'pr': []}) or (dest['l'],))
            return
        if not dest['pr'] and _is_ptr_temp(b, dest['l']):
            pass
        else:
            self.kill_related(z, dx[1])
        if not dest['pr']:
            self.cmp.pop(dest['l'], None)
        if local_callee is not None:
            summ = self.summaries.get(local_callee.key)
            if summ is not None and local_callee.d['kind'] != 'Closure':
                self.apply_summary(z, t, local_callee, summ, dx if dty in INT_TYS else None)
            if name == 'len' and len(args) == 1 and dty == 'usize' and (self.operand_ty(args[0]) or '').startswith('&') \
                    and not (self.operand_ty(args[0]) or '').startswith('&mut'):
                # a crate-local `len(&self) -> usize` is an observer: two calls on an unchanged receiver agree (the value is kept
                # under the receiver's length variable, which every write to the receiver forgets)
                cv = self.container_var(args[0])
                if cv is not None:
                    z.assign(dx, cv, 0)
                    z.add(Z, cv, 0)
            return
        if name == 'len' and len(args) == 1:
            cv = self.container_var(args[0])
            if cv is not None and dty in INT_TYS:
                z.assign(dx, cv, 0)
                z.add(Z, cv, 0)
                z.add(cv, Z, 2 ** 63 - 1)       # no allocation is larger than isize::MAX
        elif name == 'is_empty' and len(args) == 1 and not dest['pr']:
            cv = self.container_var(args[0])
            if cv is not None:
                self.cmp[dest['l']] = ('Eq', (cv, 0), (Z, 0))
                z.add(Z, cv, 0)
        elif name in ('index', 'index_mut') and len(args) == 2 and (t.get('arg_tys') or ['', ''])[1] == 'usize':
            cv = self.container_var(args[0])
            i = self.operand(args[1])
            if cv is not None and i is not None:
                z.add(i[0], cv, -1 - i[1])
        elif name in ('min', 'max') and len(args) == 2 and dty in INT_TYS:
            A, B = self.operand(args[0]), self.operand(args[1])
            # what bounds both arguments from below (above) bounds their minimum (maximum)
            both = []
            if A is not None and B is not None:
                zz = z.copy()
                for y in list(zz.vars()):
                    if y == dx or y in self.tainted:
                        continue
                    if name == 'min':
                        c1 = zz.bound(y, A[0]) if y != A[0] else 0
                        c2 = zz.bound(y, B[0]) if y != B[0] else 0
                        if c1 is not None and c2 is not None:
                            both.append((y, max(c1 - A[1], c2 - B[1])))       # y - min <= c
                    else:
                        c1 = zz.bound(A[0], y) if y != A[0] else 0
                        c2 = zz.bound(B[0], y) if y != B[0] else 0
                        if c1 is not None and c2 is not None:
                            both.append((y, max(c1 + A[1], c2 + B[1])))       # max - y <= c
            for X in (A, B):
                if X is not None:
                    if name == 'min':
                        z.add(dx, X[0], X[1])
                    else:
                        z.add(X[0], dx, -X[1])
            for y, c in both:
                if name == 'min':
                    z.add(y, dx, c)
                else:
                    z.add(dx, y, c)
        elif name == 'clamp' and len(args) == 3 and dty in INT_TYS:
            # returns normally only when min <= max; the result then lies between the limits
            lo_, hi_ = self.operand(args[1]), self.operand(args[2])
            if lo_ is not None:
                z.add(lo_[0], dx, -lo_[1])
            if hi_ is not None:
                z.add(dx, hi_[0], hi_[1])
        elif name == 'saturating_sub' and len(args) == 2 and dty in UNSIGNED_BITS:
            A, B = self.operand(args[0]), self.operand(args[1])
            if A is not None:
                z.add(dx, A[0], A[1])
            z.add(Z, dx, 0)
            if A is not None and B is not None and B[0] == Z:
                pass
        if dty in UNSIGNED_BITS:
            z.add(Z, dx, 0)

    def shr_tighten(self, z, info, bi):
        """x = a >> k (x a temp defined in this very block, a not written since) and x <= c  give  a <= ((c + 1) << k) - 1"""
        b = self.b
        for side in info[1:]:
            v = side[0]
            if v == Z or v[0] != 'loc' or len(v[1]) != 1:
                continue
            d = _single_def(b, v[1][0])
            if d is None or d[1] != 'assign' or d[0][0] != bi:
                continue
            r = d[2]['r']
            if r['k'] != 'bin' or r['op'] not in ('Shr', 'ShrUnchecked') or r['b']['k'] != 'const' or 'int' not in r['b']:
                continue
            k = r['b']['int']
            A = self.operand(r['a'])
            if A is None or A[0] == Z or not (0 <= k < 64) or self.operand_ty(r['a']) not in UNSIGNED_BITS:
                continue
            # nothing may write `a` between the shift and the end of the block
            stmts = b.stmts(bi)
            if any(point_writes(b, st, A[0][1], self.caps) for st in stmts[d[0][1] + 1:]):
                continue
            zz = z.copy()
            ub = zz.bound(v, Z)
            if ub is not None and ub >= 0:
                z.add(A[0], Z, (((ub + 1) << k) - 1) - A[1])

    def refine(self, z, info, truth):
        op, A, B = info
        if not truth:
            op = NEG[op]
        (a, ao), (b_, bo) = A, B

        def le(x, xo, y, yo, strict):
            # x + xo (<|<=) y + yo   ->  x - y <= yo - xo (- 1)
            z.add(x, y, yo - xo - (1 if strict else 0))
        if op == 'Le':
            le(a, ao, b_, bo, False)
        elif op == 'Lt':
            le(a, ao, b_, bo, True)
        elif op == 'Ge':
            le(b_, bo, a, ao, False)
        elif op == 'Gt':
            le(b_, bo, a, ao, True)
        elif op == 'Eq':
            le(a, ao, b_, bo, False)
            le(b_, bo, a, ao, False)
        elif op == 'Ne':
            # a != b together with a <= b gives a < b (and symmetrically)
            zz = z.copy()
            d1 = zz.bound(a, b_)
            if d1 is not None and d1 + ao - bo <= 0:
                le(a, ao, b_, bo, True)
            d2 = zz.bound(b_, a)
            if d2 is not None and d2 + bo - ao <= 0:
                le(b_, bo, a, ao, True)

    def project_call(self, z, t, cb):
        """constraints among the callee's parameters implied by the caller's state at the call"""
        out = Zone()
        if z.bottom:
            out.bottom = True
            return out
        ren = []
        consts = []
        for i, a in enumerate(t['args']):
            pl = i + 1
            if pl > cb.arg_count:
                break
            if a['k'] == 'const':
                if 'int' in a:
                    consts.append((('loc', (pl,)), a['int']))
                continue
            if a['k'] not in ('copy', 'move'):
                continue
            P = loc_of_place(self.b, a['p'])
            if P is not None:
                ren.append((P, (pl,)))

        def tr(v):
            if v == Z:
                return [Z]
            return [(v[0], C + v[1][len(P):]) for P, C in ren if v[1][:len(P)] == P]
        keep = {v for v in z.vars() if tr(v)}
        zz = z.copy()
        for (y, x), c in zz.closed(keep).items():
            for ty_ in tr(y):
                for tx in tr(x):
                    if tx != ty_:
                        out.add(tx, ty_, c)
        for v, c in consts:
            out.add(v, Z, c)
            out.add(Z, v, -c)
        # two parameters fed from the same caller location are equal
        for i, (P, C) in enumerate(ren):
            for P2, C2 in ren[i + 1:]:
                if P == P2:
                    for kind in ('loc', 'len'):
                        out.add((kind, C), (kind, C2), 0)
                        out.add((kind, C2), (kind, C), 0)
        return out

    def exit_summary(self):
        """what holds on every normal return of this function among: integer parameters that the body never reassigns, memory
        reachable through reference parameters (as it is at the return), and the returned integer.  Valid for every caller
        (computed without assumptions about the arguments)."""
        b = self.b
        zs = [z for z in self._exit.values() if not z.bottom and z.consistent()]
        if not zs or b.d['kind'] == 'Closure':
            return None
        e = zs[0]
        for z2 in zs[1:]:
            e = join(e, z2, None)
        ok_roots = {}
        for a in range(1, b.arg_count + 1):
            if b.defs(a):
                continue                       # reassigned (or partially written) parameter: its exit value is not the argument
            ty = b.local_ty(a)
            if ty in INT_TYS:
                ok_roots[a] = 'int'
            elif ty.startswith('&'):
                ok_roots[a] = 'ref'
        keep = set()
        for v in e.vars():
            if v == Z:
                keep.add(v)
                continue
            loc = v[1]
            if not loc or not isinstance(loc[0], int) or v in self.tainted:
                continue
            if loc == (0,) and v[0] == 'loc' and b.local_ty(0) in INT_TYS:
                keep.add(v)
            elif ok_roots.get(loc[0]) == 'int' and len(loc) == 1 and v[0] == 'loc':
                keep.add(v)
            elif ok_roots.get(loc[0]) == 'ref' and all(isinstance(x, tuple) and x and x[0] == 'f' for x in loc[1:]):
                keep.add(v)
        out = Zone()
        if (0,) in [v[1] for v in e.vars() if v != Z] and b.local_ty(0) in INT_TYS:
            keep.add(GLO)
            keep.add(GHI)
        cl = e.copy().closed(keep)
        self.ghost_facts = {}
        ret = ('loc', (0,))
        if (ret, GLO) in cl:
            self.ghost_facts['lo'] = cl[(ret, GLO)]          # GLO - ret <= c : the result is at least (a lower bound of all int parameters) - c
        if (GHI, ret) in cl:
            self.ghost_facts['hi'] = cl[(GHI, ret)]          # ret - GHI <= c
        for (y, x), c in cl.items():
            if GLO in (y, x) or GHI in (y, x):
                continue
            out.e[(y, x)] = c
        return out if (out.e or self.ghost_facts) else None

    def ghost_entry(self):
        """entry state for the summary pass: GLO <= every integer parameter <= GHI.  For any argument values such ghosts exist
        (their minimum / maximum), so what is derived among real variables stays valid for every caller; what is derived between
        the result and a ghost says `result >= min(parameters) - c` / `result <= max(parameters) + c`."""
        b = self.b
        ps = [a for a in range(1, b.arg_count + 1) if not b.defs(a) and b.local_ty(a) in INT_TYS]
        if len(ps) < 2 or b.local_ty(0) not in INT_TYS:
            return None, ps
        z = Zone()
        for a in ps:
            z.add(GLO, ('loc', (a,)), 0)
            z.add(('loc', (a,)), GHI, 0)
        return z, ps

    def apply_summary(self, z, t, cb, summ, dx):
        """add the callee's exit facts, renamed to the caller's locations, to the state on the normal-return edge (after the
        memory the call may have changed was forgotten)"""
        ren = {}
        for i, a in enumerate(t['args']):
            pl = i + 1
            if pl > cb.arg_count:
                break
            if a['k'] == 'const':
                if 'int' in a:
                    ren[pl] = ('const', a['int'])
                continue
            if a['k'] not in ('copy', 'move'):
                continue
            if cb.local_ty(pl) in INT_TYS:
                o = self.operand(a)
                if o is not None and o[0] != dx:
                    ren[pl] = ('int', o)
                continue
            P = loc_of_place(self.b, a['p'])
            if P is not None:
                ren[pl] = ('mem', P)

        def tr(v):
            if v == Z:
                return (Z, 0)
            loc = v[1]
            if loc == (0,):
                return (dx, 0) if dx is not None else None
            m = ren.get(loc[0])
            if m is None:
                return None
            if m[0] == 'const':
                return (Z, m[1]) if len(loc) == 1 and v[0] == 'loc' else None
            if m[0] == 'int':
                return m[1] if len(loc) == 1 and v[0] == 'loc' else None
            return ((v[0], m[1] + loc[1:]), 0)
        for (y, x), c in summ.e.items():
            X, Y = tr(x), tr(y)
            if X is None or Y is None:
                continue
            # (X + ox) - (Y + oy) <= c
            z.add(X[0], Y[0], c - X[1] + Y[1])
        gh = self.summaries.get(('ghost', cb.key))
        if gh and dx is not None:
            facts_, ps = gh
            acts = []
            for pl in ps:
                m = ren.get(pl)
                if m is None or m[0] == 'mem':
                    acts = None
                    break
                acts.append((Z, m[1]) if m[0] == 'const' else m[1])
            if acts:
                zz = z.copy()
                for y in list(zz.vars()):
                    if y == dx or y in self.tainted:
                        continue
                    if 'lo' in facts_:
                        ks = [(zz.bound(y, A[0]) if y != A[0] else 0) for A in acts]
                        if all(k is not None for k in ks):
                            K = max(k - A[1] for k, A in zip(ks, acts))      # y - K <= every argument
                            z.add(y, dx, K + facts_['lo'])
                    if 'hi' in facts_:
                        ks = [(zz.bound(A[0], y) if y != A[0] else 0) for A in acts]
                        if all(k is not None for k in ks):
                            K = max(k + A[1] for k, A in zip(ks, acts))      # every argument <= y + K
                            z.add(dx, y, K + facts_['hi'])

    def project(self, z, agg):
        """constraints among the locations a closure captures immutably, renamed into the closure's own locations"""
        cb = self.f.body(agg.get('path'))
        out = Zone()
        if cb is None or z.bottom:
            return out
        ups = cb.d.get('upvars') or []
        written = set()
        for pt, s in cb.points():
            if s['k'] == 'assign' and s['p']['pr']:
                d = loc_of_place(cb, s['p'])
                if d is not None and len(d) >= 2 and d[0] == 1:
                    written.add(d[1])
            elif s['k'] == 'call':
                for a in s['args']:
                    if a['k'] in ('copy', 'move'):
                        ty = (cb.local_ty(a['p']['l']) if not a['p']['pr'] else (a['p'].get('ty') or ''))
                        if ty.startswith('&mut'):
                            d = loc_of_place(cb, a['p'])
                            if d is not None and len(d) >= 2 and d[0] == 1:
                                written.add(d[1])
        ren = []
        mono = []      # mutably captured counters that the closure only ever increases: their lower bounds survive between calls
        for k, op in enumerate(agg['ops']):
            if k >= len(ups) or op['k'] not in ('copy', 'move'):
                continue
            name = ups[k]['n']
            P = loc_of_place(self.b, op['p'])
            if P is None:
                continue
            if ups[k].get('mut') or ('f', name) in written:
                if _only_incremented(cb, (1, ('f', name))) and not any(_touches(cc, (1, ('f', name))) for cc in self.f.closures_of(cb)):
                    mono.append((P, (1, ('f', name))))
                continue
            ren.append((P, (1, ('f', name))))
        if mono:
            zz0 = z.copy()
            for P, C in mono:
                lb = zz0.bound(Z, ('loc', P))
                if lb is not None:
                    out.add(Z, ('loc', C), lb)
        if not ren:
            return out

        def tr(v):
            if v == Z:
                return Z
            for P, C in ren:
                if v[1][:len(P)] == P:
                    return (v[0], C + v[1][len(P):])
            return None
        keep = {v for v in z.vars() if tr(v) is not None}
        zz = z.copy()
        for (y, x), c in zz.closed(keep).items():
            out.e[(tr(y), tr(x))] = c
        return out

    # ---- liveness of locals (to keep states small)
    def live_out(self):
        if self._live is not None:
            return self._live
        b = self.b
        n = len(b.blocks)
        use = [set() for _ in range(n)]
        for bi in range(n):
            items = b.stmts(bi) + [b.term(bi)]
            for s in items:
                for l in _locals_in(s):
                    use[bi].add(l)
            if b.term(bi)['k'] == 'return':
                use[bi].add(0)              # the return place and the parameters are read by the exit summary
                use[bi].update(range(1, b.arg_count + 1))
        # cheap over-approximation: a local is live out of bb if it is mentioned in any block reachable from bb's successors
        reach_use = [None] * n
        order = list(range(n))
        live = [set() for _ in range(n)]
        changed = True
        while changed:
            changed = False
            for bi in reversed(order):
                s = set()
                for su in b.succs(bi):
                    s |= use[su] | live[su]
                if s != live[bi]:
                    live[bi] = s
                    changed = True
        self._live = live
        return live

    def prune(self, z, bi):
        live = self.live_out()[bi]
        b = self.b
        for v in list(z.vars()):
            if v == Z:
                continue
            root = v[1][0]
            if isinstance(root, str):
                continue                    # ghost bound of the parameters (exit summaries)
            if not b.is_arg(root) and root not in live:
                z.forget(v)

    # ---- fixpoint
    def run(self):
        b = self.b
        n = len(b.blocks)
        inst = [None] * n
        incmp = [None] * n
        inst[0] = self.entry.copy() if self.entry is not None else Zone()
        incmp[0] = {}
        for a in range(1, b.arg_count + 1):
            if b.local_ty(a) in UNSIGNED_BITS:
                inst[0].add(Z, ('loc', (a,)), 0)
        visits = [0] * n
        work = [0]
        self.sites = {}
        while work:
            bi = work.pop(0)
            visits[bi] += 1
            if visits[bi] > 40:
                raise RuntimeError('bounds analysis does not converge in %s' % b.path)
            z = inst[bi].copy()
            self.cmp = dict(incmp[bi])
            stmts = b.stmts(bi)
            for si, s in enumerate(stmts):
                self.stmt(z, s, (bi, si))
            t = b.term(bi)
            pt = (bi, len(stmts))
            outs = []
            if t['k'] == 'switch':
                d = t['d']
                info = None
                if d['k'] in ('copy', 'move') and not d['p']['pr']:
                    info = self.cmp.get(d['p']['l'])
                dv = self.operand(d)
                isbool = (t.get('dty') == 'bool')
                tvals = [v for v, _ in t['targets']]
                for v, tb in t['targets']:
                    z2 = z.copy()
                    if isbool and info is not None:
                        self.refine(z2, info, v != 0)
                        self.shr_tighten(z2, info, bi)
                    elif not isbool and dv is not None and t.get('dty') in INT_TYS:
                        z2.add(dv[0], Z, v - dv[1])
                        z2.add(Z, dv[0], dv[1] - v)
                    outs.append((tb, z2))
                z2 = z.copy()
                if isbool and info is not None and len(tvals) == 1:
                    self.refine(z2, info, tvals[0] == 0)
                    self.shr_tighten(z2, info, bi)
                elif not isbool and dv is not None and t.get('dty') in UNSIGNED_BITS:
                    k2 = 0
                    while k2 in tvals:
                        k2 += 1
                    z2.add(Z, dv[0], dv[1] - k2)
                outs.append((t['otherwise'], z2))
            elif t['k'] == 'call':
                self.check_site(z, t, pt)
                if t.get('t') is not None:
                    self.call(z, t, pt)
                    outs.append((t['t'], z))
            elif t['k'] == 'assert':
                m = t.get('msg')
                if isinstance(m, dict) and m.get('kind') == 'BoundsCheck':
                    self.check_assert(z, t, pt)
                    I, L = self.operand(m['index']), self.operand(m['len'])
                    if I is not None and L is not None:
                        z.add(I[0], L[0], L[1] - I[1] - 1)
                elif isinstance(m, dict) and m.get('kind') in ('Overflow', 'OverflowNeg', 'DivisionByZero', 'RemainderByZero'):
                    self.check_arith(z, t, pt)
                if t.get('t') is not None:
                    outs.append((t['t'], z))
            elif t['k'] == 'drop':
                if t.get('t') is not None:
                    outs.append((t['t'], z))
            elif t['k'] == 'goto':
                outs.append((t['t'], z))
            elif t['k'] == 'return':
                self._exit[bi] = z.copy()
            merged = {}
            for tb, z2 in outs:
                if z2.bottom or not z2.consistent():
                    continue
                if tb in merged:
                    merged[tb] = join(merged[tb], z2, None)
                else:
                    merged[tb] = z2
            for tb, z2 in merged.items():
                z2 = z2.copy()
                self.prune(z2, bi)
                cm = {l: i for l, i in self.cmp.items() if l in self.live_out()[bi]}
                if inst[tb] is None:
                    inst[tb] = z2
                    incmp[tb] = cm
                    work.append(tb)
                    continue
                keep = None
                nz = join(inst[tb], z2, keep)
                ncm = {l: i for l, i in incmp[tb].items() if cm.get(l) == i}
                if visits[tb] >= 4:
                    # widening: only constraints that did not get weaker survive
                    nz.e = {k: c for k, c in nz.e.items() if inst[tb].e.get(k) is not None and inst[tb].e[k] >= c}
                if not (leq(nz, inst[tb]) and ncm == incmp[tb]):
                    inst[tb] = nz
                    incmp[tb] = ncm
                    if tb not in work:
                        work.append(tb)
        self.block_in = {bi: inst[bi] for bi in range(n) if inst[bi] is not None}
        self.block_cmp = {bi: incmp[bi] for bi in range(n) if incmp[bi] is not None}
        # obligations in blocks the analysis found unreachable
        for bi in range(n):
            if inst[bi] is None:
                t = b.term(bi)
                pt = (bi, len(b.stmts(bi)))
                if t['k'] == 'call':
                    self.check_site(BOTTOM, t, pt)
                elif t['k'] == 'assert' and isinstance(t.get('msg'), dict) and t['msg'].get('kind') == 'BoundsCheck':
                    self.check_assert(BOTTOM, t, pt)
        return self.sites

    # ---- obligations
    def _range_ops(self, o):
        """(start, end) operands of a `start..end` literal an operand holds, else None"""
        if o['k'] not in ('copy', 'move') or o['p']['pr']:
            return None
        d = _single_def(self.b, o['p']['l'])
        if d is None or d[1] != 'assign':
            return None
        r = d[2]['r']
        if r['k'] == 'use' and r['o']['k'] in ('copy', 'move'):
            return self._range_ops(r['o'])
        if r['k'] == 'agg' and (r.get('path') or '').endswith('ops::Range') and len(r['ops']) == 2:
            return r['ops'][0], r['ops'][1]
        return None

    def check_slice(self, z, t, pt):
        """`byte_slice(start..end)` panics when start > end (and when end exceeds the text, which is not decided here)"""
        ro = self._range_ops(t['args'][1])
        ok, why = False, 'the range is not a `start..end` literal'
        if z.bottom:
            ok, why = True, 'unreachable'
        elif ro is not None:
            lo, hi = self.operand(ro[0]), self.operand(ro[1])
            why = 'no order between start and end on some path'
            if lo is not None and hi is not None:
                zz = z.copy()
                bd = zz.bound(lo[0], hi[0]) if lo[0] != hi[0] else 0
                if zz.bottom:
                    ok, why = True, 'unreachable'
                elif lo[0] in self.tainted or hi[0] in self.tainted:
                    why = 'a bound is computed by a subtraction that is not known to stay >= 0'
                elif bd is not None and bd + lo[1] - hi[1] <= 0:
                    ok, why = True, 'start - end <= %d' % (bd + lo[1] - hi[1])
        self.slices[pt] = {'ok': ok, 'why': why, 'span': t['s'], 'recv': (t.get('arg_tys') or ['?'])[0]}

    def check_site(self, z, t, pt):
        c = t.get('callee') or {}
        if c.get('name') == 'byte_slice' and len(t['args']) == 2 and 'Range<usize>' in ((t.get('arg_tys') or ['', ''])[1]):
            self.check_slice(z, t, pt)
            return
        if c.get('name') == 'clamp' and len(t['args']) == 3 and not c.get('local') and (t.get('arg_tys') or [''])[0] in INT_TYS:
            # Ord::clamp asserts min <= max
            lo, hi = self.operand(t['args'][1]), self.operand(t['args'][2])
            ok, why = False, 'no order between the two limits on some path'
            if z.bottom:
                ok, why = True, 'unreachable'
            elif lo is not None and hi is not None:
                zz = z.copy()
                bd = zz.bound(lo[0], hi[0]) if lo[0] != hi[0] else 0
                if zz.bottom:
                    ok, why = True, 'unreachable'
                elif lo[0] in self.tainted or hi[0] in self.tainted:
                    why = 'a limit is computed by a subtraction that is not known to stay >= 0'
                elif bd is not None and bd + lo[1] - hi[1] <= 0:
                    ok, why = True, 'min - max <= %d' % (bd + lo[1] - hi[1])
            self.clamps[pt] = {'ok': ok, 'why': why, 'span': t['s'], 'ty': (t.get('arg_tys') or ['?'])[0]}
            return
        if c.get('name') in ('get', 'get_mut') and len(t['args']) == 2 and (t.get('arg_tys') or ['', ''])[1] == 'usize' \
                and not (c.get('local')):
            # a checked access cannot go out of bounds, but its index expression can still underflow (a panic in overflow-checked
            # builds): the index must not be the result of a subtraction that is not known to stay >= 0
            i = self.operand(t['args'][1])
            bad = i is not None and i[0] in self.tainted and not z.bottom
            self.sites[pt] = {'kind': 'get', 'ok': not bad, 'why': ('index computed by a subtraction that is not known to stay >= 0 '
                                                                    '(panics in overflow-checked builds)') if bad else 'checked access',
                              'span': t['s'], 'cont_ty': (t.get('arg_tys') or ['?'])[0], 'container': None,
                              'via_index_vector': False}
            return
        if c.get('name') not in ('index', 'index_mut') or len(t['args']) != 2:
            return
        if (t.get('arg_tys') or ['', ''])[1] != 'usize':
            return
        cv = self.container_var(t['args'][0])
        i = self.operand(t['args'][1])
        ok, why = False, ''
        if z.bottom:
            ok, why = True, 'unreachable'
        elif cv is None:
            why = 'container not identified'
        elif i is None:
            why = 'index not a tracked value'
        else:
            zz = z.copy()
            bd = zz.bound(i[0], cv)
            if zz.bottom:
                ok, why = True, 'unreachable'
            elif i[0] in self.tainted:
                why = 'the index is computed by a subtraction that is not known to stay >= 0: it panics in overflow-checked builds ' \
                      'and wraps to a huge index otherwise'
            elif bd is not None and bd + i[1] <= -1:
                ok, why = True, 'index - len <= %d' % (bd + i[1])
            else:
                why = 'no bound of the index by the length of %s on some path (best: %s)' % (_fmt(cv), bd)
        self.sites[pt] = {'kind': 'index', 'ok': ok, 'why': why, 'span': t['s'], 'cont_ty': (t.get('arg_tys') or ['?'])[0],
                          'container': _fmt(cv) if cv else None, 'via_index_vector': _from_index_vector(self.b, t['args'][1])}

    SIGNED_BITS = {'i8': 8, 'i16': 16, 'i32': 32, 'i64': 64, 'isize': 64}

    def num_bounds(self, z, T, ty):
        """(lower, upper) numeric bounds of a linear operand T = (var, off) of type ty, from the state and the type"""
        tlo, thi = None, None
        if ty in UNSIGNED_BITS:
            tlo, thi = 0, 2 ** UNSIGNED_BITS[ty] - 1
        elif ty in self.SIGNED_BITS:
            tlo, thi = -2 ** (self.SIGNED_BITS[ty] - 1), 2 ** (self.SIGNED_BITS[ty] - 1) - 1
        if T is None:
            return tlo, thi
        if T[0] == Z:
            return T[1], T[1]
        zz = z.copy()
        ub = zz.bound(T[0], Z)
        lb = zz.bound(Z, T[0])
        hi = thi if ub is None else (ub + T[1] if thi is None else min(thi, ub + T[1]))
        lo = tlo if lb is None else (-lb + T[1] if tlo is None else max(tlo, -lb + T[1]))
        return lo, hi

    def check_arith(self, z, t, pt):
        m = t['msg']
        kind, op = m.get('kind'), m.get('op')
        ok, why = False, ''
        A = self.operand(m['a']) if isinstance(m.get('a'), dict) else None
        B = self.operand(m['b']) if isinstance(m.get('b'), dict) else None
        ty = m.get('a_ty')
        if z.bottom:
            ok, why = True, 'unreachable'
        elif kind == 'Overflow' and op in ('Shl', 'Shr'):
            bits = {'u8': 8, 'i8': 8, 'u16': 16, 'i16': 16, 'u32': 32, 'i32': 32, 'u64': 64, 'i64': 64, 'usize': 64, 'isize': 64}.get(ty)
            if B is not None and B[0] == Z and bits and 0 <= B[1] < bits:
                ok, why = True, 'constant shift amount %d < %d' % (B[1], bits)
            elif B is not None and bits:
                zz = z.copy()
                ub = zz.bound(B[0], Z)
                lb = zz.bound(Z, B[0])
                if ub is not None and ub + B[1] < bits and lb is not None and lb - B[1] <= 0:
                    ok, why = True, 'shift amount <= %d < %d' % (ub + B[1], bits)
                else:
                    why = 'shift amount not bounded below the bit width'
        elif kind == 'Overflow' and op == 'Sub' and ty in UNSIGNED_BITS and A is not None and B is not None:
            zz = z.copy()
            bd = zz.bound(B[0], A[0])
            if bd is not None and bd + B[1] - A[1] <= 0:
                ok, why = True, 'subtrahend <= minuend'
            else:
                why = 'no fact that the subtrahend is <= the minuend on some path'
        elif kind == 'Overflow' and op == 'Add' and ty in UNSIGNED_BITS and A is not None and B is not None:
            zz = z.copy()
            ua = A[1] if A[0] == Z else (None if zz.bound(A[0], Z) is None else zz.bound(A[0], Z) + A[1])
            ub = B[1] if B[0] == Z else (None if zz.bound(B[0], Z) is None else zz.bound(B[0], Z) + B[1])
            if ua is not None and ub is not None and ua + ub <= 2 ** UNSIGNED_BITS[ty] - 1:
                ok, why = True, 'sum <= %d' % (ua + ub)
            else:
                # relational: a <= c - k for some bounded c (e.g. `x < y` with y of the same type makes x + 1 fit)
                tmax = 2 ** UNSIGNED_BITS[ty] - 1
                cl_ = t.get('c', {}).get('p', {}).get('l') if isinstance(t.get('c'), dict) else None
                if B[0] == Z and A[0] != Z:
                    for (y_, x_), c_ in list(zz.e.items()):
                        if x_ == A[0] and y_ != Z and isinstance(y_, tuple) and y_[0] == 'loc' and y_[1][0] != cl_ \
                                and self.b.local_ty(y_[1][0]) == ty and len(y_[1]) == 1:
                            # a - y <= c_  with y <= tmax  ->  a <= tmax + c_
                            if c_ + A[1] + B[1] <= 0:
                                ok, why = True, 'bounded by another value of the same width'
                                break
                if not ok:
                    why = 'no upper bound that keeps the sum inside %s' % ty
        elif kind == 'Overflow' and op in ('Add', 'Sub') and ty in self.SIGNED_BITS and A is not None and B is not None:
            alo, ahi = self.num_bounds(z, A, None)
            blo, bhi = self.num_bounds(z, B, None)
            tlo, thi = -2 ** (self.SIGNED_BITS[ty] - 1), 2 ** (self.SIGNED_BITS[ty] - 1) - 1
            if None not in (alo, ahi, blo, bhi):
                lo = alo + blo if op == 'Add' else alo - bhi
                hi = ahi + bhi if op == 'Add' else ahi - blo
                if tlo <= lo and hi <= thi:
                    ok, why = True, 'result within [%d, %d]' % (lo, hi)
            if not ok:
                why = 'operands of the signed %s are not bounded' % op.lower()
        elif kind in ('DivisionByZero', 'RemainderByZero'):
            ok, why = False, 'divisor not known to be non-zero'
            # the assert's condition is `divisor == 0` (expected false); a constant divisor makes it a constant
            c_ = t.get('c')
            if isinstance(c_, dict) and c_.get('k') in ('copy', 'move') and not c_['p']['pr']:
                d_ = _single_def(self.b, c_['p']['l'])
                if d_ is not None and d_[1] == 'assign' and d_[2]['r']['k'] == 'bin' and d_[2]['r']['op'] == 'Eq':
                    ra, rb = d_[2]['r']['a'], d_[2]['r']['b']
                    if ra['k'] == 'const' and rb['k'] == 'const' and 'int' in ra and 'int' in rb and ra['int'] != rb['int']:
                        ok, why = True, 'constant non-zero divisor'
        else:
            why = 'not discharged (%s %s on %s)' % (kind, op, ty)
        ub_b = None
        if op in ('Shl', 'Shr') and B is not None and not z.bottom:
            zz = z.copy()
            ub_b = B[1] if B[0] == Z else (None if zz.bound(B[0], Z) is None else zz.bound(B[0], Z) + B[1])
        self.arith[pt] = {'kind': kind, 'op': op, 'ty': ty, 'ok': ok, 'why': why, 'span': t.get('s', ''), 'amount_ub': ub_b,
                          'amount_const': bool(B is not None and B[0] == Z),
                          'amount_loc': (B[0][1] if (B is not None and B[0] != Z) else None)}

    def check_assert(self, z, t, pt):
        m = t['msg']
        I, L = self.operand(m['index']), self.operand(m['len'])
        ok, why = False, ''
        if z.bottom:
            ok, why = True, 'unreachable'
        elif I is None or L is None:
            why = 'operands not tracked'
        else:
            zz = z.copy()
            bd = zz.bound(I[0], L[0])
            if I[0] in self.tainted:
                why = 'the index is computed by a subtraction that is not known to stay >= 0'
            elif bd is not None and bd + I[1] - L[1] <= -1:
                ok, why = True, 'index - len <= %d' % (bd + I[1] - L[1])
            else:
                why = 'no bound of the index by the slice length on some path (best: %s)' % bd
        cty = 'slice/array'
        lo = m['len']
        if lo['k'] in ('copy', 'move') and not lo['p']['pr']:
            d_ = _single_def(self.b, lo['p']['l'])
            if d_ is not None and d_[1] == 'assign' and d_[2]['r']['k'] == 'un' and d_[2]['r']['o']['k'] in ('copy', 'move') \
                    and not d_[2]['r']['o']['p']['pr']:
                cty = self.b.local_ty(d_[2]['r']['o']['p']['l'])
        elif lo['k'] == 'const':
            cty = 'slice/array'
        self.sites[pt] = {'kind': 'boundscheck', 'ok': ok, 'why': why, 'span': t.get('s', ''), 'cont_ty': cty, 'container': None}


NEG = {'Lt': 'Ge', 'Le': 'Gt', 'Gt': 'Le', 'Ge': 'Lt', 'Eq': 'Ne', 'Ne': 'Eq'}


def _is_ptr_temp(b, l):
    return b.local_ty(l).startswith(PTR_PREFIX) and _single_def(b, l) is not None


def _fmt(v):
    if v is None:
        return '?'
    if v == Z:
        return '0'
    return '%s(%s)' % (v[0], '.'.join(str(x[1]) if isinstance(x, tuple) else '_%s' % x for x in v[1]))


def _locals_in(x, out=None):
    if out is None:
        out = set()
    if isinstance(x, dict):
        if 'l' in x and 'pr' in x:
            out.add(x['l'])
            for p in x['pr']:
                if isinstance(p, dict) and 'i' in p:
                    out.add(p['i'])
        for v in x.values():
            if isinstance(v, (dict, list)):
                _locals_in(v, out)
    elif isinstance(x, list):
        for v in x:
            _locals_in(v, out)
    return out


def _address_taken(facts):
    """def paths of crate functions that are used as values (not only called)"""
    out = set()

    def scan(x):
        if isinstance(x, dict):
            if x.get('k') == 'const' and x.get('fn'):
                fn = x['fn']
                if isinstance(fn, dict):
                    out.add(fn.get('resolved') or fn.get('path'))
                    out.add(fn.get('path'))
                else:
                    out.add(fn)
            for v in x.values():
                if isinstance(v, (dict, list)):
                    scan(v)
        elif isinstance(x, list):
            for v in x:
                scan(v)
    for b in facts.body_list:
        for bl in b.blocks:
            for st in bl['stmts']:
                scan(st)
            t = bl['term']
            if t['k'] == 'call':
                for a in t['args']:
                    scan(a)
            else:
                scan(t)
    return out


_CRATE_CACHE = {}


def analyse_crate(facts, want=None, keep=None):
    """memoised per fact base: the crate-wide run is shared by INDEX-GUARDED and POSITION-ADD"""
    ck = id(facts)
    if ck not in _CRATE_CACHE:
        kp = {}
        allb = {b.key for b in facts.body_list if b.promoted is None}
        _CRATE_CACHE[ck] = (_analyse_crate(facts, want=allb, keep=kp), kp, facts)
    out, kp, _ = _CRATE_CACHE[ck]
    if keep is not None:
        keep.update(kp)
    return out


def _analyse_crate(facts, want=None, keep=None):
    """run the analysis over every body (parents before their closures); private helper functions are analysed a second time
    with the facts every one of their call sites establishes about their parameters; returns {body key: {point: site}}"""
    bodies = [b for b in facts.body_list if b.promoted is None]
    bodies.sort(key=lambda b: b.path.count('{closure'))
    taken = _address_taken(facts)

    def interesting(b):
        has_sites = any((t.get('callee') or {}).get('name') in ('index', 'index_mut', 'get', 'get_mut') for _, t in b.calls()) or \
            any(b.term(i)['k'] == 'assert' and isinstance(b.term(i).get('msg'), dict) and b.term(i)['msg'].get('kind') == 'BoundsCheck'
                for i in range(len(b.blocks)))
        has_closures = any(s['k'] == 'assign' and s['r']['k'] == 'agg' and s['r'].get('ak') == 'closure' for _, s in b.points())
        return has_sites, has_closures
    # which crate-local functions does somebody call?  (every body is scanned, also those without index sites)
    fn_entries = {}
    summaries = {}
    out = {}
    called = set()
    for b in bodies:
        for _, t in b.calls():
            c = t.get('callee') or {}
            cb_ = facts.body(c.get('resolved') or c.get('path') or '')
            if cb_ is not None:
                called.add(cb_.key)

    def run_all(use_fn_entries):
        entries = {}
        calls = {}
        res = {}
        for b in bodies:
            has_sites, has_closures = interesting(b)
            calls_local = any(facts.body((t.get('callee') or {}).get('resolved') or (t.get('callee') or {}).get('path') or '') is not None
                              for _, t in b.calls())
            summarise = (not use_fn_entries) and b.key in called and b.d['kind'] != 'Closure'   # a helper somebody calls: its exit facts
            if not has_sites and not has_closures and not calls_local and not summarise and \
                    not (keep is not None and want and b.key in want):
                continue
            a = BoundsAnalysis(facts, b)
            a.summaries = summaries if use_fn_entries else {}
            if b.d['kind'] == 'Closure':
                zs = entries.get(b.path)
                if zs:
                    e = zs[0]
                    for z2 in zs[1:]:
                        e = join(e, z2, None)
                    a.entry = e
            elif use_fn_entries and b.key in fn_entries:
                a.entry = fn_entries[b.key]
            gps = None
            if not use_fn_entries and b.d['kind'] != 'Closure' and a.entry is None and b.key in called:
                ge, gps = a.ghost_entry()
                if ge is not None:
                    a.entry = ge
            sites = a.run()
            if not use_fn_entries:
                sm = a.exit_summary()
                if sm is not None:
                    summaries[b.key] = sm
                    if gps and getattr(a, 'ghost_facts', None):
                        summaries[('ghost', b.key)] = (a.ghost_facts, gps)
            if keep is not None:
                keep[b.key] = a
            for pt, (path, z) in a.closure_made.items():
                entries.setdefault(path, []).append(z)
            for k, zs in a.calls_made.items():
                calls.setdefault(k, []).extend(zs)
            if sites:
                res[b.key] = sites
        return res, calls
    out, calls = run_all(False)
    for k, zs in calls.items():
        cb = facts.body(k)
        if cb is None or cb.d.get('pub') or cb.d.get('vis') == 'pub' or k in taken or cb.path in taken:
            continue
        if cb.d.get('impl_trait'):
            continue            # trait methods can be called through the trait
        zs = [z for z in zs if not z.bottom]
        if not zs:
            continue
        e = zs[0]
        for z2 in zs[1:]:
            e = join(e, z2, None)
        if e.e:
            fn_entries[k] = e
    if fn_entries or summaries:
        out, _ = run_all(True)
    return out


# ======================================================================================================================
# the rule

# Unproven on the pinned tree, each confirmed by reading the code; grouped by the element type of the indexed container (stable under
# renames and code motion).  A group may hold at most this many unproven sites; anything beyond is reported.
ASSUMED = {
    'Vec<i64>': (7, 'helpers::stream_chunks_of_combined_source_map: `mappings_data` holds 5 numbers per inner segment; `m * 5` / `mi + k` '
                    'with m, idx < len / 5 from the binary search — multiplication is outside the difference-constraint domain'),
    'Vec<helpers::SourceMapLineData>': (2, 'combined map: (i) `find_inner_mapping` returned Some for this line, which it does only after '
                                           'checking 1 <= line <= len (fact established in another closure); (ii) `line_data[generated_line '
                                           '- 1]` with the generated line of a mapping produced by the decoder, which counts lines from 1'),
    'Vec<rope::Rope>': (1, 'combined map: `chunks[idx]`, one chunk per 5-number segment of the same line (data-structure invariant)'),
    'Vec<&replace_source::Replacement>': (1, 'ReplaceSource::stream_chunks: `repls[i]` under `next_replacement.is_some()`, which is set '
                                             'only from `i < repls.len()` (option-valued invariant)'),
    # round 10: the assumption listed here for CharIndices::next ("the last piece is never empty") was refuted by an independent
    # finding on the unchanged tree (slicing the rope of a nested concatenation leaves a trailing empty piece); it was removed, the
    # rule reported the site (4 > 3), defect F17 fixed in /repo (the bound is re-checked after the skip loop, which the engine proves)
    'Vec<(&str, usize)>': (3, 'rope.rs piece vectors: Lines::next indexes with its chunk cursor (advanced only while `< chunks.len() - 1`); '
                              'Rope == Rope walks two piece cursors bounded by the total byte count — data-structure invariants of the '
                              'rope, not comparisons with the indexed vector\'s length'),
    'Vec<u8>': (2, 'rope.rs get_byte: byte indexing after `byte_index < self.len()`, where the rope-level length is the sum of the piece '
                   'lengths / the piece found by the binary search contains the position'),
}


def _from_index_vector(b, o, depth=0):
    """is the operand a `usize` loaded through a `&usize` that is a closure parameter or an iterator item (the payload of an
    `Option<&usize>`), i.e. an element of a vector / range of positions handed out by an iterator adaptor?"""
    if depth > 6 or o['k'] not in ('copy', 'move'):
        return False
    p = o['p']
    l = p['l']
    ty = b.local_ty(l)
    if p['pr'] == ['*'] or (p['pr'] and p['pr'][0] == '*' and all(x == '*' for x in p['pr'])):
        if ty.replace('&', '').strip() == 'usize' and ty.startswith('&'):
            if b.d['kind'] == 'Closure' and b.is_arg(l) and l >= 2:
                return True
            d = _single_def(b, l)
            if d is not None and d[1] == 'assign' and d[2]['r']['k'] == 'use' and d[2]['r']['o']['k'] in ('copy', 'move'):
                q = d[2]['r']['o']['p']
                if any(isinstance(x, dict) and x.get('dc') == 'Some' for x in q['pr']):
                    return True
                if not q['pr'] or all(x == '*' for x in q['pr']):
                    return _from_index_vector(b, {'k': 'copy', 'p': {'l': q['l'], 'pr': ['*'], 'ty': 'usize'}}, depth + 1)
        return False
    if p['pr']:
        # `for i in a..b` / `while let Some(i) = it.next()`: the payload of the Option<usize> an iterator's next() handed out
        if any(isinstance(x, dict) and x.get('dc') == 'Some' for x in p['pr']) and 'Option<usize>' in ty.replace('std::option::', ''):
            d = _single_def(b, l)
            if d is not None and d[1] == 'call' and (d[2].get('callee') or {}).get('name') in ('next', 'next_back'):
                return True
        return False
    if b.d['kind'] == 'Closure' and b.is_arg(l) and l >= 2 and ty == 'usize':
        return True
    d = _single_def(b, l)
    if d is None or d[1] != 'assign':
        return False
    r = d[2]['r']
    if r['k'] == 'use':
        return _from_index_vector(b, r['o'], depth + 1)
    return False


def _elem_group(site, body):
    """group key of an access: the element type of the indexed sequence, the same for `Vec<T>`, `&[T]` and `[T; N]`"""
    import re
    ty = site.get('cont_ty') or ''
    if site['kind'] == 'boundscheck' and (not ty or ty == 'slice/array'):
        mod = body.path.lstrip('<').split('::')[0]
        return '[T]@%s' % mod
    ty = re.sub(r"'[a-z_0-9]+,?\s*", '', ty)          # lifetimes
    ty = ty.replace('<>', '')
    ty = re.sub(r'^(&(mut )?|\*const |\*mut )+', '', ty).strip()
    ty = ty.replace('std::vec::Vec', 'Vec')
    m = re.match(r'^Vec<(.*)>$', ty)
    if m:
        return 'Vec<%s>' % m.group(1)
    m = re.match(r'^\[(.*?)(; \d+)?\]$', ty)
    if m:
        return 'Vec<%s>' % m.group(1)
    return ty


def rule_index_guarded(ctx, config='dev'):
    f = ctx.facts(config)
    r = RuleResult('INDEX-GUARDED', 'every `container[usize]` access (Index / IndexMut on Vec and slices, and MIR bounds checks) is reached '
                                    'only with facts that put the index below the container\'s length: zone-domain abstract '
                                    'interpretation of each body (guards, resize / growth loops, len()-derived indices, closure entry '
                                    'facts); decides the upper bound only, not the overflow of `x - 1` nor range slicing')
    r.floor = 30
    r.assumptions.append('counters incremented by a constant per line / segment do not wrap: inputs shorter than 2^32 lines / segments '
                         '(the input-size assumption of DECODER-TOTAL)')
    res = analyse_crate(f)
    groups = {}
    for key, sites in res.items():
        b = f.body(key)
        for pt, s in sorted(sites.items()):
            g = _elem_group(s, b)
            inst = '%s: %s[..] (%s)' % (b.path, g, s['kind'])
            if s['ok']:
                r.site(inst + ': ' + s['why'], s['span'], 'ok')
            elif s.get('via_index_vector'):
                r.site(inst + ': not proven; assumed: the index is an element handed out by an iterator over a vector / range of '
                              'positions (an index vector such as ReplaceSource\'s sorted index holds positions of the list it '
                              'indexes — a data-structure invariant; its freshness is RESET / FRESH / PUBLISH-ORDER)', s['span'], 'assumed')
            else:
                groups.setdefault(g, []).append((b, s, inst))
    for g, lst in sorted(groups.items()):
        allowed, reason = ASSUMED.get(g, (0, None))
        if len(lst) <= allowed:
            for b, s, inst in lst:
                r.site(inst + ': not proven; assumed: ' + reason, s['span'], 'assumed')
            continue
        for b, s, inst in lst:
            r.site(inst + ': ' + s['why'], s['span'], 'violation')
        fns = sorted({b.path for b, s, inst in lst})
        r.violation('%s:%d>%d' % (g, len(lst), allowed), lst[0][1]['span'], fns[0],
                    '%d index accesses into a %s are reachable without a bound of the index by the container length (at most %d are '
                    'accepted on the pinned tree%s): %s — a hostile source map / position makes the access panic' % (
                        len(lst), g, allowed, (', for: ' + reason) if reason else '',
                        '; '.join('%s at %s (%s)' % (b.path, s['span'], s['why']) for b, s, inst in lst)))
    r.check_floor()
    return r


def _discharge_scope(f, r, scope, assumed, what):
    unproven = {}
    for b in scope:
        a = BoundsAnalysis(f, b)
        a.run()
        for pt, v in sorted(a.arith.items()):
            inst = '%s: %s %s on %s' % (b.path, v['kind'], v['op'] or '', v['ty'])
            if v['ok']:
                r.site(inst + ': ' + v['why'], v['span'], 'ok')
            else:
                unproven.setdefault((b.name, v['op']), []).append((b, v, inst))
        for pt, v in sorted(a.sites.items()):
            inst = '%s: %s' % (b.path, v['kind'])
            if v['ok']:
                r.site(inst + ': ' + v['why'], v['span'], 'ok')
            elif v.get('via_index_vector'):
                r.site(inst + ': not proven; assumed: element of an index vector (see INDEX-GUARDED)', v['span'], 'assumed')
            else:
                unproven.setdefault((b.name, 'index'), []).append((b, v, inst))
    for key, lst in sorted(unproven.items(), key=repr):
        allowed, reason = assumed.get(key, (0, None))
        if len(lst) <= allowed:
            for b, v, inst in lst:
                r.site(inst + ': not proven; assumed: ' + reason, v['span'], 'assumed')
            continue
        for b, v, inst in lst:
            r.site(inst + ': ' + v['why'], v['span'], 'violation')
        r.violation('%s:%s:%d>%d' % (lst[0][0].path, key[1], len(lst), allowed), lst[0][1]['span'], lst[0][0].path,
                    ('%d `%s` site(s) of ' + what + ' can panic (at most %d accepted%s): %s') % (
                        len(lst), key[1], allowed, (' for: ' + reason) if reason else '',
                        '; '.join('%s at %s (%s)' % (b.path, v['span'], v['why']) for b, v, inst in lst)))


ENC_ASSUMED = {
    # (method of the encoder, operation): (count, reason)
    ('encode', 'Sub'): (1, 'LinesOnlyMappingsEncoder::encode: `mapping.generated_line - self.current_line` — segments arrive sorted by '
                           'generated position (the documented domain of C17: "source maps with sorted segments"; the streaming '
                           'functions emit in generated order) and `current_line` only ever takes the value of an earlier segment'),
}


def rule_encoder_total(ctx, config='dev'):
    """every arithmetic / indexing panic site of the mappings encoders is discharged"""
    from .. import anchors
    f = ctx.facts(config)
    r = RuleResult('ENCODER-TOTAL', 'the mappings encoders (both `encode` implementations and the VLQ writer they call) cannot panic on any '
                                    'decoded value: every overflow-checked subtraction has its subtrahend below its minuend, every '
                                    'addition stays inside the type, every shift amount is below the bit width, every table index is in '
                                    'range — each discharged by the zone analysis of the body, or listed with the input assumption it '
                                    'needs')
    r.floor = 4 if f.meta().get('overflow_checks') else 1
    tr = anchors.trait_path(f, 'MappingsEncoder')
    roots = [b for b in f.body_list if b.promoted is None and b.d['kind'] != 'Closure' and b.d.get('impl_trait') == tr and b.name == 'encode']
    if not roots:
        raise anchors.AnchorMissing('no MappingsEncoder::encode implementation')
    scope, work = [], list(roots)
    while work:
        b = work.pop()
        if b in scope:
            continue
        scope.append(b)
        for cb in f.closures_of(b):
            work.append(cb)
        for pt, t in b.calls():
            c = t.get('callee')
            hb = f.body(c.get('resolved') or c['path']) if c else None
            if hb is not None and hb.promoted is None:
                work.append(hb)
    _discharge_scope(f, r, scope, ENC_ASSUMED, 'the encoder')
    r.check_floor()
    return r


VIEWS_ASSUMED = {
    ('source', 'Add'): (1, 'ReplaceSource::source: the capacity hint adds string lengths (usize sums of sizes of live allocations cannot '
                           'exceed the address space)'),
}


def rule_views_total(ctx, config='dev'):
    """the content views of ReplaceSource do no unchecked position arithmetic"""
    from .. import anchors
    f = ctx.facts(config)
    r = RuleResult('VIEWS-TOTAL', 'source(), rope(), buffer(), size() and to_writer() of ReplaceSource cannot panic on any replacement '
                                  'positions (also beyond the end of the inner text): every overflow-checked operation and every index in '
                                  'them and in the ReplaceSource helpers they call is discharged by the zone analysis (positions are '
                                  'clamped by min / max, which the analysis understands) or listed with its reason; indices handed out by '
                                  'the sorted index vector are assumed valid (INDEX-GUARDED says why)')
    r.floor = 1
    R = anchors.replace_source(f)
    tr = anchors.trait_path(f, 'Source')
    roots = [b for b in f.body_list if b.promoted is None and b.d['kind'] != 'Closure' and b.d.get('impl_adt') == R['adt']
             and b.d.get('impl_trait') == tr and b.name in ('source', 'rope', 'buffer', 'size', 'to_writer')]
    if len(roots) < 4:
        raise anchors.AnchorMissing('content views of ReplaceSource: %d' % len(roots))
    scope, work = [], list(roots)
    while work:
        b = work.pop()
        if b in scope:
            continue
        scope.append(b)
        work += f.closures_of(b)
        for pt, t in b.calls():
            c = t.get('callee')
            hb = f.body(c.get('resolved') or c['path']) if c else None
            if hb is not None and hb.promoted is None and hb.d.get('impl_adt') == R['adt'] and not hb.d.get('impl_trait'):
                work.append(hb)
    _discharge_scope(f, r, scope, VIEWS_ASSUMED, 'the ReplaceSource content views')
    r.check_floor()
    return r


# ======================================================================================================================
# VLQ-TERMINATED: path-sensitive use of the engine (no joins inside one loop iteration)

def _iteration_paths(a, start, limit=4000):
    """acyclic paths from block `start` through the CFG of a.b, each as a list of (block, out-edge target or None); a path ends at a
    return block, at a block that would re-enter `start` (a back edge: target == start), or when a block repeats"""
    b = a.b
    out = []
    stack = [(start, [])]
    while stack:
        bi, path = stack.pop()
        if len(out) > limit:
            raise RuntimeError('too many paths in %s' % b.path)
        succs = b.succs(bi)
        if not succs:
            out.append(path + [(bi, None)])
            continue
        for s_ in succs:
            if s_ == start or any(p[0] == s_ for p in path) or s_ == bi:
                out.append(path + [(bi, s_)])
            else:
                stack.append((s_, path + [(bi, s_)]))
    return out


def _replay(a, z0, cmp0, path, on_event):
    """run the transfer functions along one path without joining; on_event(z, term, point) is called at every terminator;
    returns False when the path is infeasible under the facts"""
    b = a.b
    z = z0.copy()
    a.cmp = dict(cmp0)
    for bi, nxt in path:
        for si, s in enumerate(b.stmts(bi)):
            a.stmt(z, s, (bi, si))
        t = b.term(bi)
        pt = (bi, len(b.stmts(bi)))
        on_event(z, t, pt)
        if t['k'] == 'switch' and nxt is not None:
            d = t['d']
            info = a.cmp.get(d['p']['l']) if d['k'] in ('copy', 'move') and not d['p']['pr'] else None
            isbool = t.get('dty') == 'bool'
            vals = [v for v, tb in t['targets'] if tb == nxt]
            dv = a.operand(d)
            if isbool and info is not None:
                if vals:
                    a.refine(z, info, vals[0] != 0)
                else:
                    tv = [v for v, _ in t['targets']]
                    if len(tv) == 1:
                        a.refine(z, info, tv[0] == 0)
                a.shr_tighten(z, info, bi)
            elif not isbool and dv is not None and vals:
                z.add(dv[0], Z, vals[0] - dv[1])
                z.add(Z, dv[0], dv[1] - vals[0])
        elif t['k'] == 'call' and nxt is not None:
            a.call(z, t, pt)
        elif t['k'] == 'assert' and nxt is not None:
            m = t.get('msg')
            if isinstance(m, dict) and m.get('kind') == 'BoundsCheck':
                I, L = a.operand(m['index']), a.operand(m['len'])
                if I is not None and L is not None:
                    z.add(I[0], L[0], L[1] - I[1] - 1)
        if not z.consistent():
            return False
    return True


def rule_vlq_terminated(ctx, config='dev'):
    """continuation-bit discipline of the VLQ writer"""
    from .. import anchors
    from .codec import tables
    f = ctx.facts(config)
    r = RuleResult('VLQ-TERMINATED', 'the VLQ writer ends every number it writes: along every path of one loop iteration (analysed without '
                                     'joins, from the loop-head facts) a base64 digit that can be the last one written before the function '
                                     'returns is below 32 (continuation bit clear) and every digit that is followed by another one is at '
                                     'least 32 (continuation bit set)')
    r.floor = 2
    tr = anchors.trait_path(f, 'MappingsEncoder')
    roots = [b for b in f.body_list if b.promoted is None and b.d['kind'] != 'Closure' and b.d.get('impl_trait') == tr and b.name == 'encode']
    writers = []
    seen_fns, frontier = set(), list(roots)
    for _ in range(3):
        nxt = []
        for fn in frontier:
            for pt, t in fn.calls():
                c = t.get('callee')
                hb = f.body(c.get('resolved') or c['path']) if c else None
                if hb is None or hb.d['kind'] == 'Closure' or hb.key in seen_fns:
                    continue
                seen_fns.add(hb.key)
                nxt.append(hb)
                # a digit writer indexes a constant table (MIR bounds check) and pushes the byte
                if any(hb.term(i)['k'] == 'assert' and isinstance(hb.term(i).get('msg'), dict) and hb.term(i)['msg'].get('kind') == 'BoundsCheck'
                       for i in range(len(hb.blocks))) and hb not in writers:
                    writers.append(hb)
        frontier = nxt
    if not writers:
        raise anchors.AnchorMissing('no table-indexing digit writer called by the encoders')
    from .panics import loops
    for w in writers:
        a = BoundsAnalysis(f, w)
        a.run()
        heads = sorted(loops(w).keys())
        starts = [0] + heads
        zero_event_return = False
        finals, inner = [], []
        for st in starts:
            z0 = a.block_in.get(st)
            if z0 is None:
                continue
            for path in _iteration_paths(a, st):
                events = []

                def on_event(z, t, pt, events=events):
                    m = t.get('msg') if t['k'] == 'assert' else None
                    if isinstance(m, dict) and m.get('kind') == 'BoundsCheck':
                        I = a.operand(m['index'])
                        zz = z.copy()
                        ub = None if I is None else zz.bound(I[0], Z)
                        lb = None if I is None else zz.bound(Z, I[0])
                        events.append((pt, t.get('s', ''), None if ub is None else ub + I[1], None if lb is None else -lb + I[1]))
                # the path must not run through another loop head other than its own start (those are separate starts)
                feasible = _replay(a, z0, a.block_cmp.get(st, {}), path, on_event)
                if not feasible:
                    continue
                last_blk, nxt = path[-1]
                ends_at_return = nxt is None and w.term(last_blk)['k'] == 'return'
                reenters = nxt is not None
                if ends_at_return:
                    if not events and st != 0:
                        zero_event_return = True
                    if events:
                        finals.append(events[-1])
                        inner += events[:-1]
                elif reenters:
                    inner += [(e, True) for e in events][:0]
                    # digits written in an iteration that continues: all followed by more digits unless a later iteration can
                    # return without writing (checked below)
                    finals_if_zero = events[-1:] if events else []
                    inner += events[:-1]
                    if finals_if_zero:
                        inner.append(('maybe-last',) + finals_if_zero[0])
        seen = set()
        for e in finals:
            if ('F', e[0], e[2]) in seen:
                continue
            seen.add(('F', e[0], e[2]))
            ok = e[2] is not None and e[2] <= 31
            r.site('%s: a digit that can be the last one is < 32 (bound %s)' % (w.path, e[2]), e[1], 'ok' if ok else 'violation')
            if not ok:
                r.violation('%s:last-digit' % w.path, e[1], w.path,
                            'the digit written last before the writer returns is not bounded below 32 (upper bound %s): its continuation '
                            'bit may be set, so a reader runs into the next field or off the end' % e[2])
        for e in inner:
            maybe_last = e[0] == 'maybe-last'
            if maybe_last:
                e = e[1:]
            key = ('I', e[0], maybe_last)
            if key in seen:
                continue
            seen.add(key)
            if maybe_last and zero_event_return:
                ok = e[2] is not None and e[2] <= 31
                what = 'may be the last digit (a later iteration can return without writing) and is < 32'
            else:
                ok = e[3] is not None and e[3] >= 32
                what = 'is followed by another digit and is >= 32'
            r.site('%s: a digit that %s (bounds %s..%s)' % (w.path, what, e[3], e[2]), e[1], 'ok' if ok else 'violation')
            if not ok:
                r.violation('%s:continuation' % w.path, e[1], w.path,
                            'a digit that is followed by another one is not known to carry the continuation bit (lower bound %s), or a '
                            'digit that may be the last is not below 32: the reader splits the number differently from the writer' % e[3])
    r.check_floor()
    return r


def rule_decoder_width(ctx, config='dev'):
    """the VLQ reader accumulates every digit a 32-bit field can need"""
    from .. import anchors
    from .panics import local_cone
    f = ctx.facts(config)
    r = RuleResult('DECODER-WIDTH', 'the VLQ reader keeps every digit that can carry bits of a 32-bit field: a magnitude below 2^32 plus the '
                                    'sign bit needs 7 base64 digits (35 bits), so the accumulator is at least 35 bits wide and a digit is '
                                    'shifted in for every position up to 30 — the guard that skips the shift (needed against overflow) may '
                                    'only cut off positions beyond that')
    r.floor = 1
    entry = [x for x in f.body_list if x.name == 'decode_mappings' and x.d.get('pub') and x.promoted is None]
    if len(entry) != 1:
        raise anchors.AnchorMissing('public fn decode_mappings: %d' % len(entry))
    dec = [m for ms in local_cone(f, entry[0]).values() for m in ms
           if m.promoted is None and (m.d.get('impl_trait') or '').endswith('Iterator') and m.name == 'next' and m.d['kind'] != 'Closure']
    if len(dec) != 1:
        raise anchors.AnchorMissing('decoder Iterator::next in the decode_mappings cone: %d' % len(dec))
    scope = [dec[0]] + [m for ms in local_cone(f, dec[0]).values() for m in ms if m is not dec[0]]
    bits = {'u8': 8, 'i8': 8, 'u16': 16, 'i16': 16, 'u32': 32, 'i32': 32, 'u64': 64, 'i64': 64, 'usize': 64, 'isize': 64, 'u128': 128, 'i128': 128}
    for b in scope:
        a = BoundsAnalysis(f, b)
        a.run()
        for pt, v in sorted(a.arith.items()):
            if v['op'] != 'Shl' or v['amount_const']:
                continue
            w = bits.get(v['ty'], 0)
            ub = v['amount_ub']
            ok = w >= 35 and (ub is None or ub >= 30)
            r.site('%s: digits are shifted into a %d-bit accumulator for positions up to %s' % (b.path, w, 'any' if ub is None else ub),
                   v['span'], 'ok' if ok else 'violation')
            if not ok:
                r.violation('%s:width' % b.path, v['span'], b.path,
                            'the VLQ accumulator is %d bits wide and digits are shifted in only for positions up to %s: a field delta with '
                            'magnitude >= 2^%d loses its high digits (7 digits / 35 bits are needed for 32-bit fields), so a well-formed '
                            'mappings string decodes to different positions' % (w, ub, max(0, (ub or 0) + 5 - 1) if ub is not None else w - 1))
    r.check_floor()
    return r


POSITION_ASSUMED = {
    ('ConcatSource', 'generated_line'): (1, 'line numbers count line breaks / `;` separators: reaching 2^32 needs a mappings string of 4 GiB '
                                            '(the input assumption DECODER-TOTAL already states)'),
    # (until round 9 the three `generated_column += ..` of ReplaceSource's chunk handler were listed here with the reason "the inner source
    #  is streamed with text, so the positions it reports are positions inside the delivered text".  That assumption is false: an inner
    #  ReplaceSource corrects char-counted columns by byte lengths and hands out `(negative i64) as u32` — defect F14, DESIGN 6.)
}


def rule_position_add(ctx, config='dev'):
    """composites add their offsets to a child's reported position without overflow"""
    from .. import anchors
    from .streams import composites, closure_kind
    from ..ir import walk
    f = ctx.facts(config)
    r = RuleResult('POSITION-ADD', 'a composite combines the generated position a child reports (in final-source mode a value copied '
                                   'unchecked from the child\'s source map) with its own offsets without 32-bit overflow: the u32 '
                                   'arithmetic on `mapping.generated_line` / `generated_column` in its chunk handler is proven in range, '
                                   'done in a wider / saturating form, or listed with the input assumption it needs')
    r.floor = 1 if f.meta().get('overflow_checks') else 0
    mp = anchors.adt_by_name(f, 'Mapping')['path']
    comps, ol = composites(f)
    handlers = []
    for root, members, inner in comps:
        for m in inner:
            if closure_kind(m) == 'chunk' and m not in handlers:
                handlers.append((root, m))
    keep = {}
    analyse_crate(f, want={m.key for _, m in handlers}, keep=keep)
    unproven = {}
    for root, m in handlers:
        a = keep.get(m.key)
        if a is None:
            continue
        adt = (root.d.get('impl_adt') or root.path).rsplit('::', 1)[-1]
        for pt, v in sorted(a.arith.items()):
            if v['kind'] != 'Overflow' or v['op'] not in ('Add', 'Sub', 'Mul') or v['ty'] not in UNSIGNED_BITS or UNSIGNED_BITS[v['ty']] > 32:
                continue
            t = m.term(pt[0])
            flds = set()
            for k in ('a', 'b'):
                o = t['msg'].get(k)
                if isinstance(o, dict):
                    for x in walk(m.expr_of_operand(o)):
                        if x[0] == 'field' and x[3] == mp and x[2] in ('generated_line', 'generated_column') and \
                                any(y[0] == 'arg' and y[3] == m.key for y in walk(x)):
                            flds.add(x[2])
            if not flds:
                continue
            inst = '%s: %s on the child\'s %s' % (m.path, v['op'], '/'.join(sorted(flds)))
            if v['ok']:
                r.site(inst + ': ' + v['why'], v['span'], 'ok')
            else:
                for fl in sorted(flds):
                    unproven.setdefault((adt, fl), []).append((m, v, inst))
    for key, lst in sorted(unproven.items()):
        allowed, reason = POSITION_ASSUMED.get(key, (0, None))
        if len(lst) <= allowed:
            for m, v, inst in lst:
                r.site(inst + ': not proven; assumed: ' + reason, v['span'], 'assumed')
            continue
        for m, v, inst in lst:
            r.site(inst + ': ' + v['why'], v['span'], 'violation')
        r.violation('%s:%s:%d>%d' % (key[0], key[1], len(lst), allowed), lst[0][1]['span'], lst[0][0].path,
                    '%d u32 operation(s) on a child\'s `%s` in %s\'s chunk handler can overflow (at most %d accepted%s): %s — a child '
                    'map with a huge value there makes map() panic in overflow-checked builds' % (
                        len(lst), key[1], key[0], allowed, (' for: ' + reason) if reason else '',
                        '; '.join('%s (%s)' % (v['span'], v['why']) for m, v, inst in lst)))
    r.check_floor()
    return r


def rule_clamp_order(ctx, config='dev'):
    """`Ord::clamp(min, max)` panics when min > max"""
    f = ctx.facts(config)
    r = RuleResult('CLAMP-ORDER', 'every integer `clamp(min, max)` in the crate is called with limits that are proven ordered '
                                  '(min <= max) on every path reaching it: `Ord::clamp` asserts that order, which the hand-written '
                                  '`.max(a).min(b)` it usually replaces does not need')
    r.floor = 0
    keep = {}
    analyse_crate(f, keep=keep)
    n_calls = 0
    for b in f.body_list:
        if b.promoted is not None:
            continue
        for pt, t in b.calls():
            c = t.get('callee') or {}
            if c.get('name') == 'clamp' and len(t['args']) == 3 and not c.get('local') and (t.get('arg_tys') or [''])[0] in INT_TYS:
                n_calls += 1
                a = keep.get(b.key)
                v = a.clamps.get(pt) if a is not None else None
                if v is None:
                    v = {'ok': False, 'why': 'call site not analysed', 'span': t['s']}
                r.site('%s: clamp limits ordered: %s' % (b.path, v['why']), t['s'], 'ok' if v['ok'] else 'violation')
                if not v['ok']:
                    r.violation('%s:clamp' % b.path, t['s'], b.path,
                                '`clamp(min, max)` with limits that are not proven ordered (%s): it panics ("assertion failed: min <= '
                                'max") for the inputs that make min exceed max, e.g. a replacement that ends beyond the text' % v['why'])
    r.info('%d integer clamp call(s) in the crate' % n_calls)
    return r


# `byte_slice(start..end)` sites whose `start <= end` is not proven on the pinned tree, each confirmed by reading the code; grouped by
# the function (closures folded into their parent) so that a new unproven site anywhere is reported
SLICE_ASSUMED = {
    'ReplaceSource<T> as helpers::StreamChunks>::stream_chunks': (
        {'dev': 2, 'release': 3},
           'ReplaceSource::stream_chunks: (i) `chunk_pos..chunk_pos + offset` (two sites; with overflow checks the second one is '
           'proven from the checked addition, without them both are listed), end = start plus an unsigned value (the order can only '
           'fail if that u32 addition overflows, an overflow obligation and not a range one); (ii) `chunk_pos..chunk.len()` directly '
           'under the guard `(chunk_pos as usize) < chunk.len()` — `chunk_pos` is computed by position subtractions whose range the '
           'domain does not establish, so facts about it are not used'),
}


def rule_slice_order(ctx, config='dev'):
    """byte_slice(start..end) is called with start <= end"""
    f = ctx.facts(config)
    r = RuleResult('SLICE-ORDER', 'every `byte_slice(start..end)` of a rope / source text is called with `start <= end` proven on every '
                                  'path reaching it, or is one of the listed sites whose order follows from an invariant the domain '
                                  'cannot express: `Rope::byte_slice` panics on a reversed range')
    r.floor = 6
    keep = {}
    analyse_crate(f, keep=keep)
    unproven = {}
    for b in f.body_list:
        if b.promoted is not None:
            continue
        a = keep.get(b.key)
        for pt, t in b.calls():
            c = t.get('callee') or {}
            if not (c.get('name') == 'byte_slice' and len(t['args']) == 2 and 'Range<usize>' in ((t.get('arg_tys') or ['', ''])[1])):
                continue
            ro = t['args'][1]
            for _ in range(3):      # through copies of the parameter
                if ro['k'] in ('copy', 'move') and not ro['p']['pr'] and not b.is_arg(ro['p']['l']):
                    d_ = _single_def(b, ro['p']['l'])
                    if d_ is not None and d_[1] == 'assign' and d_[2]['r']['k'] == 'use' and d_[2]['r']['o']['k'] in ('copy', 'move'):
                        ro = d_[2]['r']['o']
                        continue
                break
            if ro['k'] in ('copy', 'move') and not ro['p']['pr'] and b.is_arg(ro['p']['l']) and not b.defs(ro['p']['l']):
                continue            # forwards the range it was given: the obligation is its callers'
            v = a.slices.get(pt) if a is not None else None
            if v is None:
                v = {'ok': False, 'why': 'call site not analysed', 'span': t['s'], 'recv': '?'}
            root = (b.d.get('root') or b.path)
            root = root.split('::{closure')[0]
            inst = '%s: byte_slice range ordered' % b.path
            if v['ok']:
                r.site(inst + ': ' + v['why'], t['s'], 'ok')
            else:
                unproven.setdefault(root, []).append((b, t, v, inst))
    for root, lst in sorted(unproven.items()):
        allowed, reason = 0, None
        for k, (n_, why_) in SLICE_ASSUMED.items():
            if k in root:
                allowed, reason = (n_.get(config, n_['dev']) if isinstance(n_, dict) else n_), why_
        if len(lst) <= allowed:
            for b, t, v, inst in lst:
                r.site(inst + ': not proven; assumed: ' + reason, t['s'], 'assumed')
            r.assumptions.append('%s: %s' % (root, reason))
            continue
        for b, t, v, inst in lst:
            r.site(inst + ': ' + v['why'], t['s'], 'violation')
        r.violation('%s:%d>%d' % (root, len(lst), allowed), lst[0][1]['s'], lst[0][0].path,
                    '%d `byte_slice(start..end)` call(s) in %s without a proof of `start <= end` (at most %d accepted%s): %s — '
                    '`Rope::byte_slice` panics on a reversed range' % (
                        len(lst), root, allowed, (' for: ' + reason) if reason else '',
                        '; '.join('%s (%s)' % (t['s'], v['why']) for b, t, v, inst in lst)))
    r.check_floor()
    return r


def _is_state_place(e):
    """a mutable piece of splitter state: a captured variable, a field of one, or a field behind a parameter"""
    if not isinstance(e, tuple) or not e:
        return False
    if e[0] == 'upvar':
        return True
    if e[0] == 'field':
        return _is_state_place(e[1]) or (isinstance(e[1], tuple) and e[1] and e[1][0] == 'arg')
    return False


def _state_name(e):
    return e[1] if e[0] == 'upvar' else (_state_name(e[1]) + '.' + e[2] if e[1][0] != 'arg' else e[2])


def rule_cursor_forward(ctx, config='dev'):
    """the column cursor of a text splitter never moves backwards"""
    from .ropeinv import nz
    from ..ir import walk
    f = ctx.facts(config)
    r = RuleResult('CURSOR-FORWARD', 'a splitter that cuts the generated text at the positions a source map names (the start of each '
                                     '`WithIndices::substring` is a running column cursor) only ever moves that cursor forward: every '
                                     'write to it stores 0 at a line start or a value proven >= the cursor (a dominating comparison, '
                                     '`max`, an increment). A cursor that can move back re-emits text it already delivered, so the '
                                     'chunks no longer reassemble to source() when the map names columns out of order')
    r.floor = 2
    keep = {}
    analyse_crate(f, keep=keep)
    for b in f.body_list:
        if b.promoted is not None:
            continue
        cursors = set()
        for pt, t in b.calls():
            c = t.get('callee') or {}
            if c.get('name') == 'substring' and 'WithIndices' in (c.get('path') or '') and len(t['args']) == 3:
                e = nz(b.expr_of_operand(t['args'][1]))
                if _is_state_place(e):
                    cursors.add(e)
        if not cursors:
            continue
        a = keep.get(b.key)
        for bb in range(len(b.blocks)):
            if b.is_cleanup(bb):
                continue
            for si, st in enumerate(b.stmts(bb)):
                if st['k'] != 'assign' or not st['p']['pr']:
                    continue
                pe = nz(b.expr_of_place(st['p']))
                if pe not in cursors:
                    continue
                rv = st['r']
                cname = _state_name(pe)
                inst = '%s: write to the column cursor `%s`' % (b.path, cname)
                if rv['k'] == 'use' and rv['o']['k'] == 'const' and rv['o'].get('int') == 0:
                    r.site(inst + ': reset to 0 at a line start', st['s'], 'ok')
                    continue
                ok, why = False, 'not analysed'
                if a is not None and bb in a.block_in:
                    z = a.block_in[bb].copy()
                    a.cmp = dict(a.block_cmp.get(bb, {}))
                    for sj, s2 in enumerate(b.stmts(bb)[:si]):
                        a.stmt(z, s2, (bb, sj))
                    cur = a.var_of_place(st['p'])
                    E = a.operand(rv['o']) if rv['k'] == 'use' else None
                    if z.bottom or not z.consistent():
                        ok, why = True, 'unreachable'
                    elif cur is None or E is None:
                        why = 'stored value is not a tracked integer'
                    elif E[0] in a.tainted:
                        why = 'stored value is computed by a subtraction that is not known to stay >= 0'
                    else:
                        bd = z.copy().bound(cur, E[0]) if cur != E[0] else 0
                        if bd is not None and bd <= E[1]:
                            ok, why = True, 'cursor - new value <= %d' % (bd - E[1])
                        else:
                            why = 'nothing orders the stored value after the current cursor on this path'
                elif a is not None:
                    ok, why = True, 'unreachable'
                r.site(inst + ': ' + why, st['s'], 'ok' if ok else 'violation')
                if not ok:
                    r.violation('%s:%s:backwards' % (b.path, cname), st['s'], b.path,
                                'the column cursor `%s` is overwritten with a value that is not known to be >= its current value (%s): '
                                'a map segment that names an earlier column on the same line moves the cursor back and the text '
                                'between is delivered twice' % (cname, why))
    r.check_floor()
    return r
