#!/usr/bin/env python3
"""Hand-written behaviour-preserving refactorings (negative controls) -> /verif/benign/own-*.diff"""
import difflib, os, sys
V = os.path.dirname(os.path.dirname(os.path.abspath(__file__)))
REPO = '/repo'
SPECS = []
def spec(name, edits): SPECS.append((name, edits))
RS='src/replace_source.rs'; CS='src/cached_source.rs'; CC='src/concat_source.rs'; DEC='src/decoder.rs'; RAW='src/raw_source.rs'; OS_='src/original_source.rs'

spec('own-replace-delegates', [(RS, '''    self.replacements.push(Replacement::new(
      start,
      end,
      content.into(),
      name.map(|s| s.into()),
      ReplacementEnforce::Normal,
    ));
    self.is_sorted.store(false, Ordering::SeqCst);
  }''', '''    self.replace_with_enforce(start, end, content, name, ReplacementEnforce::Normal)
  }''')])
spec('own-cached-map-match', [(CS, '''    if let Some(map) = self.cached_maps.get(options) {
      return map.clone();
    }
    let map = self.inner.map(options);''', '''    match self.cached_maps.get(options) {
      Some(cached) => return cached.value().clone(),
      None => {}
    }
    let map = self.inner.map(options);''')])
spec('own-concat-size-loop', [(CC, '''    self.children().iter().map(|child| child.size()).sum()''', '''    let mut total = 0;
    for child in self.children() {
      total += child.size();
    }
    total''')])
spec('own-decoder-while-let', [(DEC, '''    for c in &mut self.mappings_iter {''', '''    while let Some(c) = self.mappings_iter.next() {''')])
spec('own-rawbuffer-helper', [(RAW, '''impl Source for RawBufferSource {
  fn source(&self) -> Cow<str> {
    Cow::Borrowed(
      self
        .value_as_string
        .get_or_init(|| String::from_utf8_lossy(&self.value).to_string()),
    )
  }

  fn rope(&self) -> Rope<'_> {
    Rope::from(
      self
        .value_as_string
        .get_or_init(|| String::from_utf8_lossy(&self.value).to_string()),
    )
  }
''', '''impl RawBufferSource {
  fn decoded(&self) -> &String {
    self
      .value_as_string
      .get_or_init(|| String::from_utf8_lossy(&self.value).to_string())
  }
}

impl Source for RawBufferSource {
  fn source(&self) -> Cow<str> {
    Cow::Borrowed(self.decoded())
  }

  fn rope(&self) -> Rope<'_> {
    Rope::from(self.decoded())
  }
''')])
spec('own-original-final-local', [(OS_, '''    on_source(0, Cow::Borrowed(&self.name), Some(Rope::from(&self.value)));
    if options.columns {''', '''    let with_text = !options.final_source;
    on_source(0, Cow::Borrowed(&self.name), Some(Rope::from(&self.value)));
    if options.columns {'''), (OS_, '''          if !options.final_source {
            on_chunk(
              Some(token.into_rope()),''', '''          if with_text {
            on_chunk(
              Some(token.into_rope()),'''), (OS_, '''            (!options.final_source).then_some(token.into_rope()),''', '''            with_text.then_some(token.into_rope()),''')])
spec('own-sorter-sort-by', [(RS, '''    let sorted_index = self
      .replacements
      .iter()
      .enumerate()
      .sorted_by(|(_, a), (_, b)| {
        (a.start, a.end, a.enforce).cmp(&(b.start, b.end, b.enforce))
      })
      .map(|replacement| replacement.0)
      .collect::<Vec<_>>();''', '''    let mut sorted_index = (0..self.replacements.len()).collect::<Vec<_>>();
    sorted_index.sort_by(|x, y| {
      let (a, b) = (&self.replacements[*x], &self.replacements[*y]);
      (a.start, a.end, a.enforce).cmp(&(b.start, b.end, b.enforce))
    });'''), (RS, 'use itertools::Itertools;\n', '')])
spec('own-rename-sorter', [(RS, 'fn sort_replacement(&self)', 'fn ensure_sorted(&self)'), (RS, 'self.sort_replacement();', 'self.ensure_sorted();')])

spec('own-reset-helpers', [(RS, '''    self.replacements.push(Replacement::new(
      start,
      end,
      content.into(),
      name.map(|s| s.into()),
      enforce,
    ));
    self.is_sorted.store(false, Ordering::SeqCst);
  }''', '''    self.push_replacement(Replacement::new(
      start,
      end,
      content.into(),
      name.map(|s| s.into()),
      enforce,
    ));
    self.invalidate_order();
  }'''), (RS, '''  fn sorted_replacement(&self) -> Vec<&Replacement> {''', '''  fn push_replacement(&mut self, replacement: Replacement) {
    self.replacements.push(replacement);
  }

  fn invalidate_order(&self) {
    self.is_sorted.store(false, Ordering::SeqCst);
  }

  fn sorted_replacement(&self) -> Vec<&Replacement> {''')])

os.makedirs(os.path.join(V, 'benign'), exist_ok=True)
bad = 0
for name, edits in SPECS:
    state = {}
    for file, old, new in edits:
        cur = state.get(file) or open(os.path.join(REPO, file)).read()
        if cur.count(old) != 1:
            print('!!', name, 'anchor occurs', cur.count(old), 'times in', file); bad += 1; continue
        state[file] = cur.replace(old, new)
    out = ''
    for file, dst in state.items():
        src = open(os.path.join(REPO, file)).read()
        out += ''.join(difflib.unified_diff(src.splitlines(True), dst.splitlines(True), 'a/' + file, 'b/' + file, n=3))
    open(os.path.join(V, 'benign', name + '.diff'), 'w').write(out)
print(len(SPECS), 'benign specs,', bad, 'errors')
