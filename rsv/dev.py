"""dev helper: run rule functions against an existing facts file (not a registered check)"""
import sys, json, importlib
from .ir import Facts
class DevCtx:
    def __init__(self, path): self._f = Facts(path)
    def facts(self, config='dev'): return self._f
    def witness(self, src): return (True, [], [])
if __name__ == '__main__':
    path, mod = sys.argv[1], sys.argv[2]
    m = importlib.import_module('rsv.rules.' + mod)
    ctx = DevCtx(path)
    for name in sys.argv[3:] or [n for n in dir(m) if n.startswith('rule_')]:
        res = getattr(m, name)(ctx)
        print('==', res.rule, 'sites', len(res.sites), 'ok', res.discharged, 'findings', len(res.findings))
        for s in res.sites: print('   ', s['verdict'], s['instance'], s['site'])
        for f_ in res.findings: print('  VIOLATION', f_.key, f_.site, '--', f_.why)
        for i in res.infos: print('  INFO', i)
