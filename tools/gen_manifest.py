#!/usr/bin/env python3
"""Regenerate /verif/MANIFEST.json from rsv.registry + rsv.claims (keeps the two consistent)."""
import json
import os
import sys

V = os.path.dirname(os.path.dirname(os.path.abspath(__file__)))
sys.path.insert(0, V)
from rsv import registry, claims  # noqa

props = [json.loads(l)['id'] for l in open(os.path.join(V, 'properties.jsonl'))]
kf = json.load(open(os.path.join(V, 'known_findings.json')))
fix_commits = []
for line in kf.get('fixed', []):
    parts = line.split()
    if len(parts) >= 3:
        fix_commits.append(parts[2])

checks, na = [], []
for p in props:
    if p in registry.PROPERTY_RULES and p in claims.CLAIMS:
        c = claims.CLAIMS[p]
        rules = sorted({fn.replace('rule_', '').upper().replace('_', '-') for _, fn, _ in registry.PROPERTY_RULES[p]})
        checks.append({
            'property_id': p,
            'quick_cmd': 'bin/check %s --tier quick' % p,
            'thorough_cmd': 'bin/check %s --tier thorough' % p,
            'evidence_file': '/verif/evidence/%s.json' % p,
            'replay_cmd_template': 'bin/check %s --replay {path}' % p,
            'engine': 'rsv',
            'level_claimed': {'category': c['category'], 'text': c['text'] + ' Rules: ' + ', '.join(rules) + '.',
                              'design_ref': c['design_ref']},
            'level_note': claims.NOTE,
            'technique': c['technique'],
        })
    else:
        na.append({'property_id': p, 'reason': claims.NOT_APPLICABLE.get(p, claims.PENDING)})

m = {
    'version': 1,
    'setup_cmd': 'bin/setup',
    'hooks': {
        'guard': 'rspack_sources_verif',
        'enable': 'no hooks: the checks analyse the unmodified crate through RUSTC_WORKSPACE_WRAPPER (guard name reserved, unused)',
        'baseline_off_cmd': 'cd /repo && cargo test --workspace --no-fail-fast --offline',
        'source_commits': fix_commits,
        'add_only': True,
    },
    'engines': [{
        'name': 'rsv',
        'path': '/verif/driver + /verif/rsv',
        'serves_properties': [c['property_id'] for c in checks],
        'kind_free_text': 'custom static analyser: rustc_private driver dumping resolved MIR/ADT/impl/const facts of the '
                          'crate as compiled, python rule engine (dominators, post-dominators, def-use, origin/flow '
                          'analyses, constant tables) + compile-fail witnesses compiled against the lib rmeta',
    }],
    'checks': checks,
    'not_applicable': na,
    'notes': 'Technique family: static analysis only. No registered check executes library code. See DESIGN.md.',
}
json.dump(m, open(os.path.join(V, 'MANIFEST.json'), 'w'), indent=1)
print('claimed:', [c['property_id'] for c in checks])
print('not_applicable:', [n['property_id'] for n in na])
