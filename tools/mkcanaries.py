#!/usr/bin/env python3
"""Generate the canary patches (one-instance-broken variants of /repo) from edit specs.

A canary is a *self-test of the checker*, not a check of /repo: thorough applies each to a scratch
copy and requires the expected finding.  Patches are regenerated from the specs below against
/repo's HEAD; `prefix-*` canaries are the reverse patches of the fix: commits and are kept as
files (they are not regenerated here).
"""
import difflib
import json
import os
import sys

V = os.path.dirname(os.path.dirname(os.path.abspath(__file__)))
REPO = '/repo'

# name, properties, rule, expected key substring(s), [(file, old, new)]
SPECS = []


def spec(name, props, rule, expect, edits):
    SPECS.append(dict(name=name, properties=props, rule=rule, expect=expect, edits=edits))


RS = 'src/replace_source.rs'
CS = 'src/cached_source.rs'
RAW = 'src/raw_source.rs'
OS_ = 'src/original_source.rs'
SMS = 'src/source_map_source.rs'
SRC = 'src/source.rs'
CC = 'src/concat_source.rs'
HP = 'src/helpers.rs'
ENC = 'src/encoder.rs'
DEC = 'src/decoder.rs'
ROPE = 'src/rope.rs'

spec('reset-dropped', ['C05'], 'RESET', 'RESET:replace_source::ReplaceSource::<T>::replace_with_enforce', [
    (RS, '''      enforce,
    ));
    self.is_sorted.store(false, Ordering::SeqCst);''', '''      enforce,
    ));''')])
spec('fresh-flag-before-index', ['C05', 'C18'], 'FRESH', 'FRESH:', [
    (RS, '''    *self.sorted_index.lock().unwrap() = sorted_index;
    self.is_sorted.store(true, Ordering::SeqCst)''', '''    self.is_sorted.store(true, Ordering::SeqCst);
    *self.sorted_index.lock().unwrap() = sorted_index;''')])
spec('hash-iterates-insertion-order', ['C05'], 'ORDERED-READ', 'ORDERED-READ:', [
    (RS, '''    for repl in self.sorted_replacement() {
      repl.hash(state);
    }
    self.inner.hash(state);''', '''    for repl in self.replacements.iter() {
      repl.hash(state);
    }
    self.inner.hash(state);''')])
spec('sort-unstable', ['C05'], 'SORTKEY', 'SORTKEY:', [
    (RS, '''      .sorted_by(|(_, a), (_, b)| {
        (a.start, a.end, a.enforce).cmp(&(b.start, b.end, b.enforce))
      })''', '''      .sorted_unstable_by(|(_, a), (_, b)| {
        (a.start, a.end, a.enforce).cmp(&(b.start, b.end, b.enforce))
      })''')])
spec('sort-key-without-enforce', ['C05'], 'SORTKEY', 'SORTKEY:', [
    (RS, '(a.start, a.end, a.enforce).cmp(&(b.start, b.end, b.enforce))', '(a.start, a.end).cmp(&(b.start, b.end))')])
spec('cache-key-default', ['C10'], 'KEY', 'KEY:', [
    (CS, 'if let Some(map) = self.cached_maps.get(options) {', 'if let Some(map) = self.cached_maps.get(&MapOptions::default()) {')])
spec('cache-remove', ['C10', 'C18', 'C19'], 'WRITEONCE', 'WRITEONCE:', [
    (CS, '''    let map = self.inner.map(options);
''', '''    let map = self.inner.map(options);
    self.cached_maps.remove(options);
''')])
spec('hash-reads-cell', ['C14', 'C20', 'C10'], 'MEMO', 'MEMO:', [
    (RAW, '''    "RawBufferSource".hash(state);
    self.buffer().hash(state);''', '''    "RawBufferSource".hash(state);
    self.value_as_string.get().hash(state);
    self.buffer().hash(state);''')])
spec('eq-drops-name', ['C14'], 'EQCOVER', 'EQCOVER:original_source::OriginalSource:name', [
    (OS_, 'self.value == other.value && self.name == other.name', 'self.value == other.value')])
spec('hash-drops-name', ['C20'], 'HASHCOVER', 'HASHCOVER:original_source::OriginalSource:name', [
    (OS_, '''    self.buffer().hash(state);
    self.name.hash(state);''', '''    self.buffer().hash(state);''')])
spec('clone-loses-value', ['C14'], 'CLONECOVER', 'CLONECOVER:raw_source::RawSource:value', [
    (RAW, '''      value: self.value.clone(),
      value_as_string: Default::default(),''', '''      value: RawValue::String("".into()),
      value_as_string: Default::default(),''')])
spec('hash-address', ['C20'], 'HASHDET', 'HASHDET:', [
    (CS, '''      self.inner.hash(&mut hasher);
      hasher.finish()''', '''      self.inner.hash(&mut hasher);
      (Arc::as_ptr(&self.inner) as *const () as usize).hash(&mut hasher);
      hasher.finish()''')])

spec('b64-table-swapped', ['C12'], 'TABLES', 'TABLES:entry', [
    (ENC, 'b"ABCDEFGHIJKLMNOPQRSTUVWXYZabcdefghijklmnopqrstuvwxyz0123456789+/"', 'b"ABCDEFGHIJKLMNOPQRSTUVWXYZabcdefghijklmnopqrstuvwxyz0123456789/+"')])
spec('decoder-table-entry', ['C12'], 'TABLES', 'TABLES:decoder', [
    (DEC, '''   ERR, ERR, ERR, ERR, ERR, ERR, ERR, ERR, ERR, ERR, ERR,  62, COM, ERR, ERR,  63,  // 2''',
          '''   ERR, ERR, ERR, ERR, ERR, ERR, ERR, ERR, ERR, ERR, ERR,  62, COM,  62, ERR,  63,  // 2''')])
spec('separator-dot', ['C12', 'C11', 'C19'], 'ALPHABET', 'ALPHABET:', [
    (ENC, "      self.mappings.push(b',');", "      self.mappings.push(b'.');")])
spec('encoder-writes-nonascii', ['C19', 'C11'], 'ALPHABET', 'ALPHABET:', [
    (ENC, '''          self.current_original_line = original.original_line;
          self.mappings.extend(b"AACA");''', '''          self.current_original_line = original.original_line;
          self.mappings.push(original.original_line as u8);''')])
spec('json-key-renamed-one-side', ['C15'], 'JSON-NAMES', 'JSON-NAMES:', [
    (SRC, '''  #[serde(rename = "sourceRoot")]
  pub source_root: Option<String>,''', '''  pub source_root: Option<String>,''')])
spec('json-flow-swapped', ['C15'], 'JSON-FLOW', 'JSON-FLOW:flow', [
    (SRC, '''    let source_root = raw.source_root.map(Into::into);
    let debug_id = raw.debug_id.map(Into::into);''', '''    let source_root = raw.debug_id.map(Into::into);
    let debug_id = raw.source_root.map(Into::into);''')])
spec('decoder-guard-dropped', ['C17'], 'DECODER-TOTAL', 'DECODER-TOTAL:', [
    (DEC, 'if self.current_data_pos < 5 {', 'if self.current_data_pos < 6 {')])
spec('decoder-accumulating-line', ['C17'], 'DECODER-TOTAL', 'DECODER-TOTAL:', [
    (DEC, '''          self.generated_line += 1;
          self.current_data[0] = 0;''', '''          self.generated_line += self.current_data[0] + 1;
          self.current_data[0] = 0;''')])
spec('json-entry-unwrap', ['C17'], 'JSON-ENTRY', 'JSON-ENTRY:', [
    (SRC, '''    let raw: RawSourceMap = simd_json::serde::from_slice(&mut v)?;
    Ok(raw)
  }

  pub fn from_json''', '''    let raw: RawSourceMap = simd_json::serde::from_slice(&mut v).unwrap();
    Ok(raw)
  }

  pub fn from_json''')])

spec('concat-size-via-source', ['C07', 'C13'], 'DELEG', 'DELEG:concat_source::ConcatSource:size', [
    (CC, 'self.children().iter().map(|child| child.size()).sum()', 'self.children().iter().map(|child| child.source().len()).sum()')])
spec('box-size-via-source', ['C07', 'C13'], 'DELEG', 'DELEG:', [
    (SRC, '''  fn size(&self) -> usize {
    self.as_ref().size()
  }''', '''  fn size(&self) -> usize {
    self.as_ref().source().len()
  }''')])
spec('cached-size-via-source', ['C07', 'C13', 'C10'], 'DELEG', 'DELEG:cached_source::CachedSource<T>:size', [
    (CS, '''  fn size(&self) -> usize {
    self.inner.size()
  }''', '''  fn size(&self) -> usize {
    self.inner.source().len()
  }''')])
spec('box-map-default-options', ['C13'], 'DELEG', 'DELEG:', [
    (SRC, 'self.as_ref().map(options)', 'self.as_ref().map(&MapOptions::default())')])
spec('concat-writer-error-dropped', ['C07'], 'IOERR', 'IOERR:<concat_source::ConcatSource as source::Source>::to_writer', [
    (CC, '      child.to_writer(writer)?;', '      let _ = child.to_writer(writer);')])

WI = 'src/with_indices.rs'
spec('unsafe-impl-sync', ['C18', 'C19'], 'NO-UNSAFE-SYNC', 'NO-UNSAFE-SYNC:', [
    (ROPE, '''impl<'a> Rope<'a> {
  /// Creates a new empty rope.''', '''unsafe impl<'a> Sync for Rope<'a> {}

impl<'a> Rope<'a> {
  /// Creates a new empty rope.''')])
spec('new-unaudited-unsafe', ['C19'], 'UNSAFE-SITES', 'UNSAFE-SITES:', [
    (HP, '''          Some(pos) => (&self.haystack[..=pos], &self.haystack[pos + 1..]),''',
         '''          Some(pos) => (unsafe { self.haystack.get_unchecked(..=pos) }, &self.haystack[pos + 1..]),''')])
spec('transmute-of-local', ['C19'], 'UNSAFE-SITES', 'UNSAFE-SITES:', [
    (RS, '''          let repl = unsafe {
            std::mem::transmute::<&Replacement, &'a Replacement>(repls[i])
          };''', '''          let tmp_repl = repls[i].clone();
          let repl = unsafe {
            std::mem::transmute::<&Replacement, &'a Replacement>(&tmp_repl)
          };''')])
spec('substring-raw-indices', ['C19'], 'UNSAFE-SITES', 'UNSAFE-SITES:', [
    (WI, 'self.line.byte_slice_unchecked(start..end)', 'self.line.byte_slice_unchecked(start_index..end_index)')])

spec('text-original-lines-none', ['C01'], 'TEXT', 'TEXT:<original_source::OriginalSource', [
    (OS_, '''          (!options.final_source).then_some(l.into_rope()),''', '''          None,''')])
spec('text-concat-close-always', ['C01', 'C08'], 'TEXT', 'TEXT:<concat_source::ConcatSource', [
    (CC, '|| (options.final_source && last_mapping_line == generated_line);', '|| (last_mapping_line == generated_line);')])
spec('text-lines-full-none', ['C01', 'C08'], 'TEXT', 'TEXT:helpers::stream_chunks_of_source_map_lines_full', [
    (HP, '''      mapping.generated_column = 0;
      original.name_index = None;
      on_chunk(Some(chunk.clone().into_rope()), mapping);''', '''      mapping.generated_column = 0;
      original.name_index = None;
      on_chunk(None, mapping);''')])
spec('opts-public-final', ['C01'], 'OPTS-LIT', 'OPTS-LIT:', [
    (SRC, '''impl MapOptions {
  /// Create [MapOptions] with columns.''', '''impl MapOptions {
  /// Create final [MapOptions].
  pub fn new_final(columns: bool) -> Self {
    Self {
      columns,
      final_source: true,
    }
  }

  /// Create [MapOptions] with columns.''')])
spec('replace-inner-options-inherit', ['C17'], 'UNWRAP-TEXT', 'UNWRAP-TEXT:', [
    (RS, '''      &MapOptions {
        columns: options.columns,
        final_source: false,
      },
      &mut |chunk, mut mapping| {''', '''      &MapOptions {
        columns: options.columns,
        final_source: options.columns,
      },
      &mut |chunk, mut mapping| {''')])
spec('ident-column-zero', ['C04'], 'IDENT', 'IDENT:', [
    (OS_, '''                original_line: line,
                original_column: column,''', '''                original_line: line,
                original_column: 0,''')])
spec('ident-announce-value-as-name', ['C04'], 'IDENT', 'IDENT:', [
    (OS_, 'on_source(0, Cow::Borrowed(&self.name), Some(Rope::from(&self.value)));', 'on_source(0, Cow::Borrowed(&self.value), Some(Rope::from(&self.value)));')])
spec('idx-concat-local-source', ['C06', 'C11'], 'IDX', 'IDX:<concat_source::ConcatSource as helpers::StreamChunks>::stream_chunks:source', [
    (CC, '''            on_chunk(
              chunk,
              Mapping {
                generated_line: line,
                generated_column: column,
                original: Some(OriginalLocation {
                  source_index: result_source_index,''', '''            on_chunk(
              chunk,
              Mapping {
                generated_line: line,
                generated_column: column,
                original: Some(OriginalLocation {
                  source_index: original.source_index,''')])
spec('idx-combined-passthrough-local', ['C09', 'C11'], 'IDX', 'IDX:helpers::stream_chunks_of_combined_source_map', [
    (HP, '''              name_index: (final_name_index >= 0)
                .then_some(final_name_index as u32),
            }),
          },
        );
      }
    },''', '''              name_index: (final_name_index >= 0)
                .then_some(name_index as u32),
            }),
          },
        );
      }
    },''')])
spec('idx-combined-inner-local', ['C09'], 'IDX', 'IDX:helpers::stream_chunks_of_combined_source_map:source', [
    (HP, '''                original: (source_index >= 0).then_some(OriginalLocation {
                  source_index: source_index as u32,''', '''                original: (source_index >= 0).then_some(OriginalLocation {
                  source_index: inner_source_index,''')])
spec('advance-unconditional', ['C06'], 'ADVANCE', 'ADVANCE:', [
    (RS, '''          if let Some(original) = mapping.original.as_mut().filter(|original| {
            check_original_content(
              original.source_index,
              original.original_line,
              original.original_column,
              chunk.byte_slice(0..chunk_pos as usize),
            )
          }) {
            original.original_column += chunk_pos;
          }''', '''          if let Some(original) = mapping.original.as_mut() {
            original.original_column += chunk_pos;
          }''')])
spec('pair-combined-name-not-announced', ['C09', 'C11'], 'PAIR', 'PAIR:helpers::stream_chunks_of_combined_source_map', [
    (HP, '''            name_mapping.borrow_mut().insert(name.clone(), len);
            on_name(len, name.clone());''', '''            name_mapping.borrow_mut().insert(name.clone(), len);''')])
spec('pair-concat-not-dense', ['C11'], 'PAIR', 'PAIR:<concat_source::ConcatSource', [
    (CC, 'source_mapping.insert(source.clone(), len);', 'source_mapping.insert(source.clone(), len + 1);')])
spec('alloc-dedup-concat-source-no-lookup', ['C06', 'C11'], 'ALLOC-DEDUP', 'ALLOC-DEDUP:<concat_source::ConcatSource', [
    (CC, '''          let mut global_index = source_mapping.get(&source).copied();
          if global_index.is_none() {
            let len = source_mapping.len() as u32;
            source_mapping.insert(source.clone(), len);
            on_source(len, source, source_content);
            global_index = Some(len);
          }
          source_index_mapping
            .borrow_mut()
            .insert(i, global_index.unwrap());''', '''          let len = source_mapping.len() as u32;
          source_mapping.insert(source.clone(), len);
          on_source(len, source, source_content);
          source_index_mapping.borrow_mut().insert(i, len);''')])
spec('alloc-dedup-combined-name-no-lookup', ['C09', 'C11'], 'ALLOC-DEDUP', 'ALLOC-DEDUP:helpers::stream_chunks_of_combined_source_map', [
    (HP, '''          let mut global_index = name_mapping.get(name).copied();
          if global_index.is_none() {
            let len = name_mapping.len() as u32;
            name_mapping.borrow_mut().insert(name.clone(), len);
            on_name(len, name.clone());
            global_index = Some(len);
          }
          final_name_index = global_index.unwrap() as i64;
          name_index_mapping.insert(name_index, final_name_index);''', '''          let len = name_mapping.len() as u32;
          name_mapping.borrow_mut().insert(name.clone(), len);
          on_name(len, name.clone());
          final_name_index = len as i64;
          name_index_mapping.insert(name_index, final_name_index);''')])
spec('prefix-sum-append-counts-chars', ['C04', 'C10', 'C11', 'C19'], 'PREFIX-SUM', "PREFIX-SUM:rope::Rope::<'a>::append", [
    (ROPE, '''        for &(chunk, _) in other.iter() {
          cur.push((chunk, len));
          len += chunk.len();
        }
      }
      (Repr::Full(s), Repr::Light(other)) => {''', '''        for &(chunk, _) in other.iter() {
          cur.push((chunk, len));
          len += chunk.chars().count();
        }
      }
      (Repr::Full(s), Repr::Light(other)) => {''')])
spec('prefix-sum-from-iter-counts-chars', ['C04', 'C10', 'C11', 'C19'], 'PREFIX-SUM', 'PREFIX-SUM:<rope::Rope', [
    (ROPE, '''        let cur = (chunk, len);
        len += chunk.len();
        Some(cur)''', '''        let cur = (chunk, len);
        len += chunk.chars().count();
        Some(cur)''')])
spec('slice-order-rope-unguarded-copy', ['C17'], 'SLICE-ORDER', 'SLICE-ORDER:<replace_source::ReplaceSource<T> as source::Source>::rope', [
    (RS, '''      if inner_pos < replacement.start {
        let end_pos = (replacement.start as usize).min(inner_source_code.len());
        let slice = inner_source_code.byte_slice(inner_pos as usize..end_pos);
        source_code.append(slice);
      }''', '''      {
        let end_pos = (replacement.start as usize).min(inner_source_code.len());
        let slice = inner_source_code.byte_slice(inner_pos as usize..end_pos);
        source_code.append(slice);
      }''')])
spec('clamp-order-source-uses-clamp', ['C17'], 'CLAMP-ORDER', 'CLAMP-ORDER:<replace_source::ReplaceSource<T> as source::Source>::source', [
    (RS, '''      source_code.push_str(&replacement.content);
      #[allow(clippy::manual_clamp)]
      {
        inner_pos = inner_pos
          .max(replacement.end)
          .min(inner_source_code.len() as u32);
      }''', '''      source_code.push_str(&replacement.content);
      inner_pos =
        inner_pos.clamp(replacement.end, inner_source_code.len() as u32);''')])
spec('root-lines-final-raw-name', ['C08'], 'ROOT', 'ROOT:helpers::stream_chunks_of_source_map_lines_final', [
    (HP, '''      get_source(source_map, source),
      source_map.get_source_content(i).map(Rope::from),
    )
  }
  let final_line = if result.generated_column == 0 {''', '''      Cow::Borrowed(source),
      source_map.get_source_content(i).map(Rope::from),
    )
  }
  let final_line = if result.generated_column == 0 {''')])
spec('eager-lines-full-keeps-names', ['C08', 'C11'], 'EAGER', 'EAGER:helpers::stream_chunks_of_source_map_lines_full', [
    (HP, '''      mapping.generated_column = 0;
      original.name_index = None;
      on_chunk(Some(chunk.clone().into_rope()), mapping);''', '''      mapping.generated_column = 0;
      on_chunk(Some(chunk.clone().into_rope()), mapping);''')])
spec('eager-announce-after-deliver', ['C08', 'C11'], 'EAGER', 'EAGER:helpers::stream_chunks_of_source_map_final', [
    (HP, '''  for (i, name) in source_map.names().iter().enumerate() {
    on_name(i as u32, Cow::Borrowed(name));
  }
  let mut mapping_active_line = 0;''', '''  let mut mapping_active_line = 0;'''),
    (HP, '''  for mapping in source_map.decoded_mappings() {
    on_mapping(mapping);
  }
  result
}

fn stream_chunks_of_source_map_full''', '''  for mapping in source_map.decoded_mappings() {
    on_mapping(mapping);
  }
  for (i, name) in source_map.names().iter().enumerate() {
    on_name(i as u32, Cow::Borrowed(name));
  }
  result
}

fn stream_chunks_of_source_map_full''')])


def main():
    os.makedirs(os.path.join(V, 'canaries'), exist_ok=True)
    idx_path = os.path.join(V, 'canaries', 'index.json')
    keep = []
    if os.path.exists(idx_path):
        keep = [c for c in json.load(open(idx_path)) if c['name'].startswith('prefix-') or c['name'].startswith('seeded-')]
    out = list(keep)
    bad = 0
    for s in SPECS:
        chunks = []
        state = {}
        for (file, old, new) in s['edits']:
            cur = state.get(file)
            if cur is None:
                cur = open(os.path.join(REPO, file)).read()
            if cur.count(old) != 1:
                print('!! %s: anchor text occurs %d times in %s' % (s['name'], cur.count(old), file))
                bad += 1
                continue
            state[file] = cur.replace(old, new)
        for file, dst in state.items():
            src = open(os.path.join(REPO, file)).read()
            d = difflib.unified_diff(src.splitlines(True), dst.splitlines(True), 'a/' + file, 'b/' + file, n=3)
            chunks.append(''.join(d))
        fn = s['name'] + '.diff'
        open(os.path.join(V, 'canaries', fn), 'w').write(''.join(chunks))
        out.append({'name': s['name'], 'file': fn, 'properties': s['properties'], 'rule': s['rule'], 'expect': s['expect']})
    json.dump(out, open(idx_path, 'w'), indent=1)
    print('%d canaries (%d kept prefix-*/seeded-*), %d spec errors' % (len(out), len(keep), bad))
    return 1 if bad else 0


if __name__ == '__main__':
    sys.exit(main())
