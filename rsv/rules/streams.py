"""Streaming rules over the chunk / source / name callbacks: PAIR, IDX, ADVANCE, IDENT, ROOT, EAGER
(C04, C06, C08, C09, C11).  Callbacks are recognised by *signature*, never by name."""
import re

from ..core import RuleResult
from ..ir import access_paths, walk, strip, value_walk, inline, resolve_closure_params
from .. import anchors
from ..flow import Origins

THROUGH = {'deref', 'deref_mut', 'borrow', 'borrow_mut', 'as_ref', 'as_mut', 'new', 'by_ref', 'clone'}


def cb_kind(tuple_ty):
    t = re.sub(r"'\w+(, | )?", '', tuple_ty).replace(' ', '')
    if t.startswith('(std::option::Option<rope::Rope<') and 'source::Mapping' in t:
        return 'chunk'
    if t.startswith('(u32,std::borrow::Cow<str>,std::option::Option<rope::Rope'):
        return 'source'
    if t.startswith('(u32,std::borrow::Cow<str>)'):
        return 'name'
    return None


def callback_calls(b):
    """(pt, term, kind, tuple operand exprs) for every call of a dyn chunk/source/name callback in body b"""
    for pt, t in b.calls():
        c = t.get('callee')
        if not c or c['name'] not in ('call_mut', 'call', 'call_once') or len(t['args']) != 2:
            continue
        if 'dyn ' not in t['arg_tys'][0] and 'dyn for' not in t['arg_tys'][0]:
            continue
        kind = cb_kind(t['arg_tys'][1])
        if kind is None:
            continue
        tup = b.expr_of_operand(t['args'][1])
        ops = None
        for x in strip(tup, through_calls=set()):
            if x[0] == 'agg' and x[1] == 'tuple':
                ops = x[5]
        yield pt, t, kind, ops


def closure_kind(cb):
    """kind of an internal callback closure by its parameter types"""
    tys = [re.sub(r"'\w+(, | )?", '', cb.local_ty(i)).replace(' ', '') for i in range(2, cb.arg_count + 1)]
    if len(tys) == 2 and tys[0].startswith('std::option::Option<rope::Rope') and tys[1] == 'source::Mapping':
        return 'chunk'
    if len(tys) == 3 and tys[0] == 'u32' and tys[1].startswith('std::borrow::Cow<str>') and tys[2].startswith('std::option::Option<rope::Rope'):
        return 'source'
    if len(tys) == 2 and tys[0] == 'u32' and tys[1].startswith('std::borrow::Cow<str>'):
        return 'name'
    return None


def group_of(f, root_body):
    root = root_body.d.get('root') or root_body.path
    return [m for m in f.body_list if m.promoted is None and (m.d.get('root') or m.path) == root]


def is_outer_callback(f, b, t, root_key):
    """does the callee object of this callback call come from a parameter of the root function (or of the helper function
    this call sits in, which receives the caller's callback)?"""
    e = b.expr_of_operand(t['args'][0])
    roots = strip(e, through_calls=THROUGH)
    own_root = b.d.get('root') or b.path
    hb = f.body(own_root)
    helper_ok = hb is not None and hb.d['kind'] != 'Closure' and own_root != root_key and not closure_kind_streams(f, hb)
    return bool(roots) and all(r[0] == 'arg' and (r[3] == root_key or (helper_ok and r[3] == own_root)) for r in roots)


def composites(f):
    """root functions that stream a child through internal callback closures and build OriginalLocation values"""
    ol = anchors.adt_by_name(f, 'OriginalLocation')['path']
    out = []
    roots = {}
    for b in f.body_list:
        if b.promoted is None:
            roots.setdefault(b.d.get('root') or b.path, []).append(b)
    for root, members in roots.items():
        has_agg = any(s['k'] == 'assign' and s['r']['k'] == 'agg' and s['r'].get('path') == ol
                      for m in members for _, s in m.points())
        inner = [m for m in members if m.d['kind'] == 'Closure' and closure_kind(m)]
        if inner and f.body(root) is not None:
            # crate-local helper functions the composite calls (depth 2) belong to its analysis scope
            helpers, frontier = [], list(members)
            for _ in range(2):
                nxt = []
                for m in frontier:
                    for pt, t in m.calls():
                        c = t.get('callee')
                        hb = f.body((c.get('resolved') or c['path'])) if c else None
                        if hb is not None and hb.d['kind'] != 'Closure' and hb not in helpers and hb not in members \
                                and not closure_kind_streams(f, hb):
                            helpers.append(hb)
                            nxt += group_of(f, hb)
                frontier = nxt
            hm = []
            for hb in helpers:
                hm += group_of(f, hb)
            if not has_agg:
                # the locations may be built by a private helper the composite calls (e.g. `with_name_index(original, name)`)
                has_agg = any(s['k'] == 'assign' and s['r']['k'] == 'agg' and s['r'].get('path') == ol
                              for m in hm for _, s in m.points())
            if not has_agg:
                continue
            out.append((f.body(root), members + hm, inner))
    return out, ol


def closure_kind_streams(f, hb):
    """is this function itself a stream implementation (takes the three callbacks)?  Those are children, not helpers."""
    tys = [hb.local_ty(i) for i in range(1, hb.arg_count + 1)]
    return sum(1 for t in tys if 'dyn' in t and 'FnMut' in t) >= 3


def dedup_inserts(b):
    for pt, t in b.calls():
        c = t.get('callee')
        if c and c['name'] == 'insert' and len(t['args']) == 3 and 'HashMap<std::borrow::Cow<' in t['arg_tys'][0] \
                and t['arg_tys'][2] == 'u32':
            yield pt, t


def _helper_callers(f, hb):
    """call sites of a local non-closure function"""
    out = []
    for b in f.body_list:
        if b.promoted is not None:
            continue
        for pt, t in b.calls():
            c = t.get('callee')
            if c and (c.get('resolved') or c['path']) == hb.key:
                out.append((b, pt, t))
    return out


def _is_table_helper(f, b, t):
    """an insertion into a table the function receives as a parameter, in a plain function that holds no stream callbacks"""
    if b.d['kind'] == 'Closure' or closure_kind_streams(f, b) or list(callback_calls(b)):
        return False
    root = Origins(f, [b]).table_root(b.expr_of_operand(t['args'][0]))
    return root is not None and root[0] == 'arg'


def rule_pair(ctx):
    f = ctx.facts()
    r = RuleResult('PAIR', 'announced indices are dense and announced before use: every insertion into a name/source de-duplication '
                           'map stores `len()` of that same map and is post-dominated by the announcement of that very value to the '
                           'caller\'s callback of the matching kind')
    r.floor = 4
    for b in f.body_list:
        if b.promoted is not None:
            continue
        root_key = b.d.get('root') or b.path
        cbs = list(callback_calls(b))
        for pt, t in dedup_inserts(b):
            val = b.expr_of_operand(t['args'][2])
            m = Origins(f, [b]).table_root(b.expr_of_operand(t['args'][0]))
            # (i) value == len(same map)
            dense = False
            for x in strip(val, through_calls=set()):
                if x[0] == 'call' and x[1].rsplit('::', 1)[-1] == 'len' and x[2] and \
                        Origins(f, [b]).table_root(x[2][0]) == m:
                    dense = True
            # (ii) announced afterwards with the same value
            ann = False
            for cpt, ct, kind, ops in cbs:
                if kind in ('source', 'name') and ops and ops[0] == val and b.postdominates(cpt, pt) and \
                        is_outer_callback(f, b, ct, root_key):
                    ann = True
            if not ann and _is_table_helper(f, b, t):
                # the allocation lives in a helper: every caller announces the index the helper hands back
                callers = _helper_callers(f, b)
                ann = bool(callers)
                for cb_, cpt_, ct_ in callers:
                    crk = cb_.d.get('root') or cb_.path
                    if not any(kind in ('source', 'name') and ops and is_outer_callback(f, cb_, ct2, crk) and cb_.dominates(cpt_, cpt2)
                               and any(x[0] == 'call' and x[1] == ct_['callee']['path'] for x in walk(ops[0]))
                               for cpt2, ct2, kind, ops in callback_calls(cb_)):
                        ann = False
            ok = dense and ann
            r.site('%s: dedup insert (dense=%s, announced=%s)' % (b.path, dense, ann), t['s'], 'ok' if ok else 'violation')
            if not dense:
                r.violation('%s:dense' % b.path, t['s'], b.path,
                            'index stored in the de-duplication map is not `len()` of that map: announced indices are not dense from zero')
            elif not ann:
                r.violation('%s:announce' % b.path, t['s'], b.path,
                            'a new global index is inserted but not (on every path) announced to the caller\'s callback with that same '
                            'value: a consumer later sees an index it was never told about')
        # converse: an announcement of a fresh index `len(M)` must come with an insertion into M that makes len advance,
        # otherwise the next announcement reuses the same index and overwrites this file/name in the consumer's table
        ins = list(dedup_inserts(b))
        for cpt, ct, kind, ops in cbs:
            if kind not in ('source', 'name') or not ops or not is_outer_callback(f, b, ct, root_key):
                continue
            lens = [x for x in strip(ops[0], through_calls=set()) if x[0] == 'call' and x[1].rsplit('::', 1)[-1] == 'len' and x[2]]
            if not lens:
                continue
            mroot = Origins(f, [b]).table_root(lens[0][2][0])
            ok = False
            for ipt, it in ins:
                if Origins(f, [b]).table_root(b.expr_of_operand(it['args'][0])) == mroot and \
                        (b.dominates(ipt, cpt) or b.postdominates(ipt, cpt)):
                    ok = True
            r.site('%s: announcement of a fresh index is paired with an insertion into the same map' % b.path, ct['s'],
                   'ok' if ok else 'violation')
            if not ok:
                r.violation('%s:reserve' % b.path, ct['s'], b.path,
                            'a fresh index `len()` is announced but nothing is inserted into that de-duplication map on this path: the '
                            'counter does not advance, the next announced file/name gets the same index and overwrites this one')
    r.check_floor()
    return r


def _lookup_miss_edge(f, b, pt, mroot):
    """is pt dominated by the *miss* edge of a test of a lookup (`get` / `contains_key`) in the table `mroot`?"""
    O = Origins(f, [b])
    dom = b.dom().get(pt[0], set())
    for d in dom:
        t = b.term(d)
        if t['k'] != 'switch' or t['d']['k'] not in ('copy', 'move'):
            continue
        e = b.expr_of_operand(t['d'])
        looked = [x for x in walk(e) if x[0] == 'call' and x[1].rsplit('::', 1)[-1] in ('get', 'contains_key', 'get_mut') and x[2]
                  and O.table_root(x[2][0]) == mroot]
        if not looked:
            continue
        zero_t = [x[1] for x in t['targets'] if x[0] == 0]
        one_t = [x[1] for x in t['targets'] if x[0] == 1]
        top = e
        while top[0] in ('cast', 'ref', 'deref'):
            top = top[1]
        miss = []
        if top[0] == 'discr':
            miss = zero_t or ([t['otherwise']] if one_t else [])
        elif top[0] == 'call' and top[1].rsplit('::', 1)[-1] == 'is_none':
            miss = [t['otherwise']] if zero_t else one_t
        elif top[0] == 'call' and top[1].rsplit('::', 1)[-1] in ('is_some', 'contains_key'):
            miss = zero_t or ([t['otherwise']] if one_t else [])
        elif top[0] == 'un' and top[1] == 'Not':
            miss = [t['otherwise']] if zero_t else one_t
        for g in miss:
            if (g == pt[0] or g in dom) and len(b.preds(g)) == 1:
                return True
    return False


def rule_alloc_dedup(ctx):
    f = ctx.facts()
    r = RuleResult('ALLOC-DEDUP', 'a file / name gets one index: every allocation of a fresh index (an insertion of `len()` into a '
                                  'name/source de-duplication map) happens only on the miss edge of a lookup in that same map: '
                                  're-inserting a present key does not grow the map, so the next `len()` would repeat an index '
                                  'that was already announced')
    r.floor = 8
    for b in f.body_list:
        if b.promoted is not None:
            continue
        O = Origins(f, [b])
        for pt, t in dedup_inserts(b):
            val = b.expr_of_operand(t['args'][2])
            m = O.table_root(b.expr_of_operand(t['args'][0]))
            dense = any(x[0] == 'call' and x[1].rsplit('::', 1)[-1] == 'len' and x[2] and O.table_root(x[2][0]) == m
                        for x in strip(val, through_calls=set()))
            if not dense:
                continue                      # not an allocation (PAIR reports non-dense insertions)
            ok = _lookup_miss_edge(f, b, pt, m)
            r.site('%s: fresh index allocated on a lookup miss' % b.path, t['s'], 'ok' if ok else 'violation')
            if _is_table_helper(f, b, t):
                for cb_, cpt_, ct_ in _helper_callers(f, b)[1:]:      # one allocation site per user of the helper
                    r.site('%s: allocates through %s' % (cb_.path, b.path), ct_['s'], 'ok' if ok else 'violation')
            if not ok:
                r.violation('%s:unguarded' % b.path, t['s'], b.path,
                            'a fresh index is allocated and stored without a failed lookup of the key in that map on the way: a '
                            'key that is already in the map is re-inserted without growing it, so the next fresh index `len()` collides '
                            'with one already announced and two files / names share one index')
        # the entry API allocates on a miss by construction
        for pt, t in b.calls():
            c = t.get('callee')
            if c and c['name'] in ('insert', 'or_insert', 'or_insert_with', 'insert_entry') and t['args'] and \
                    ('Entry<' in t['arg_tys'][0]) and 'std::borrow::Cow<' in t['arg_tys'][0] and ', u32' in t['arg_tys'][0]:
                r.site('%s: fresh index allocated through the entry API (vacant by construction)' % b.path, t['s'], 'ok')
    r.check_floor()
    return r


def rule_idx(ctx):
    f = ctx.facts()
    r = RuleResult('IDX', 'composites emit only indices of the numbering they announce: per index kind (source / name) a composite '
                          'either forwards the child\'s numbering unchanged or renumbers through its tables, and every OriginalLocation it '
                          'builds takes that index from the matching origin (never a child-local index in a renumbered space)')
    r.floor = 8
    comps, ol = composites(f)
    if len(comps) < 3:
        raise anchors.AnchorMissing('expected >= 3 composite streamers (concat, replace, combined), found %d' % len(comps))
    for root, members, inner in comps:
        org = Origins(f, members)
        # numbering per kind, from the outer announcer calls
        numbering = {}
        for m in members:
            for pt, t, kind, ops in callback_calls(m):
                if kind in ('source', 'name') and ops and is_outer_callback(f, m, t, root.key):
                    o = org.origin(ops[0]) - {'CONST'}
                    numbering.setdefault(kind, set()).update(o)
        field_of = {'source': 'source_index', 'name': 'name_index'}
        for m in members:
            for pt, s in m.points():
                if s['k'] == 'assign' and s['r']['k'] == 'agg' and s['r'].get('path') == ol:
                    ops = dict(zip(s['r']['fields'], s['r']['ops']))
                    for kind, fld in field_of.items():
                        fe = m.expr_of_operand(ops[fld])
                        o = org.origin(fe) - {'CONST'}
                        if o == {'UNKNOWN'} and fe and fe[0] == 'arg' and m.d['kind'] != 'Closure':
                            # a private builder helper (`with_name_index(original, index)`): the index is what its callers pass
                            at_sites = set()
                            n_sites = 0
                            for cm in members:
                                for cpt, ct in cm.calls():
                                    cc = ct.get('callee')
                                    if cc and (cc.get('resolved') or cc['path']) == m.key and fe[1] - 1 < len(ct['args']):
                                        at_sites |= org.origin(cm.expr_of_operand(ct['args'][fe[1] - 1]))
                                        n_sites += 1
                            if n_sites:
                                o = at_sites - {'CONST'}
                        num = numbering.get(kind, set())
                        if num == {'LOCAL'}:
                            mode, allowed = 'identity', {'LOCAL'}
                        elif num and 'LOCAL' not in num and 'UNKNOWN' not in num:
                            mode, allowed = 'renumbered', {'GLOBAL'}
                        elif not num:
                            mode, allowed = 'never-announced', set()
                        else:
                            mode, allowed = 'mixed', set()
                        ok = o <= allowed
                        r.site('%s: %s of emitted location has origin %s; %s numbering is %s' % (
                            m.path, fld, sorted(o) or ['CONST'], kind, mode), s['s'], 'ok' if ok else 'violation')
                        if not ok:
                            r.violation('%s:%s' % (root.path, kind), s['s'], m.path,
                                        'emitted %s has origin %s but this stream announces %s indices in a %s numbering (announcer passes %s): '
                                        'an index of the child\'s numbering leaks into the output (wrong or unannounced %s)' % (
                                            fld, sorted(o), kind, mode, sorted(num), kind))
        # forwarded mappings: a chunk delivered to the caller with the child's Mapping / OriginalLocation object itself
        # (not rebuilt) carries the child's *local* indices for both kinds
        ol_name = ol
        for m in members:
            for pt, t, kind, ops in callback_calls(m):
                if kind != 'chunk' or not ops or not is_outer_callback(f, m, t, root.key):
                    continue
                fwd = _forwarded_location(m, ops[1], ol_name)
                if not fwd:
                    continue
                for kind2 in ('source', 'name'):
                    num = numbering.get(kind2, set())
                    ok = (num == {'LOCAL'}) or (not num and kind2 == 'name' and False)
                    r.site('%s: forwards the child\'s location object unchanged; %s numbering is %s' % (
                        m.path, kind2, 'identity' if num == {'LOCAL'} else 'renumbered/unknown'), t['s'], 'ok' if ok else 'violation')
                    if not ok:
                        r.violation('%s:%s:forwarded' % (root.path, kind2), t['s'], m.path,
                                    'a chunk is delivered with the child\'s own location object (its %s index is in the child\'s numbering) but '
                                    'this stream renumbers %s indices: the index is wrong or was never announced' % (kind2, kind2))
        # SIDES: tables handed together to one helper call must belong to the same child stream (all filled by the outer
        # announcement closures, or all by the inner ones)
        side_of = {}
        for m in members:
            kind_m = closure_kind(m) if m.d['kind'] == 'Closure' else None
            if kind_m in ('source', 'name'):
                side = 'outer' if m.d.get('parent') == root.path else 'inner'
                for pt, t in m.calls():
                    c = t.get('callee')
                    if c and c['name'] == 'insert' and len(t['args']) == 3:
                        side_of.setdefault(org.table_root(m.expr_of_operand(t['args'][0])), set()).add((side, kind_m))
        for m in members:
            for pt, t in m.calls():
                c = t.get('callee')
                hb = f.body(c.get('resolved') or c['path']) if c else None
                if hb is None or hb.d['kind'] == 'Closure' or c['name'] in ('get', 'get_mut', 'insert', 'clear', 'new', 'default'):
                    continue
                tabs = [(a, side_of[org.table_root(m.expr_of_operand(a))]) for a in t['args']
                        if org.table_root(m.expr_of_operand(a)) in side_of]
                if len(tabs) < 2:
                    continue
                common = set.intersection(*[{sd for sd, _ in sides} for _, sides in tabs])
                ok = bool(common)
                r.site('%s: tables passed to `%s` belong to the same child stream' % (m.path, c['name']), t['s'], 'ok' if ok else 'violation')
                if not ok:
                    r.violation('%s:sides' % root.path, t['s'], m.path,
                                'a helper is called with an index table of one child stream (%s) together with a table of the other: '
                                'indices of one map are looked up / memoised in the tables of the other' % [sorted(x) for _, x in tabs])
        # KEYSPACE: an integer-keyed translation table is keyed in ONE numbering: keys of the child's numbering (LOCAL / RAW) and keys
        # of the announced numbering (GLOBAL) must never meet in the same table
        by_table = {}
        for m in members:
            for pt, t in m.calls():
                c = t.get('callee')
                if not c or c['name'] not in ('get', 'get_mut', 'insert') or len(t['args']) < 2 or t['arg_tys'][1] not in ('u32', '&u32', 'usize', '&usize'):
                    continue
                root_t = org.table_root(m.expr_of_operand(t['args'][0]))
                if root_t is None:
                    continue
                ko = org.origin(m.expr_of_operand(t['args'][1])) - {'CONST'}
                by_table.setdefault(root_t, []).append((m, t, ko))
        for root_t, uses in by_table.items():
            allk = set()
            for m, t, ko in uses:
                allk |= ko
            mixed = 'GLOBAL' in allk and (allk & {'LOCAL', 'RAW', 'LOCAL?'})
            for m, t, ko in uses:
                bad = mixed and 'GLOBAL' in ko
                r.site('%s: table key of `%s` has origin %s' % (m.path, t['callee']['name'], sorted(ko) or ['CONST']), t['s'],
                       'violation' if bad else 'ok')
                if bad:
                    r.violation('%s:keyspace' % root.path, t['s'], m.path,
                                'an index translation table that is otherwise keyed by the child\'s indices is accessed with a key of the '
                                'announced (global) numbering: the memoised translation lands in the wrong slot and poisons another entry')
    r.check_floor()
    return r


def _forwarded_location(m, mapping_expr, ol):
    """does the Mapping passed to the callback carry an OriginalLocation that was not rebuilt here (flows from a parameter)?"""
    for x in strip(mapping_expr, through_calls={'clone'}):
        if x[0] == 'arg':
            return True
        if x[0] == 'agg' and x[2] and x[2].endswith('::Mapping'):
            orig = dict(zip(x[4], x[5])).get('original')
            for y in strip(orig, through_calls={'clone', 'cloned', 'take'}):
                if y[0] == 'agg' and y[3] == 'None':
                    continue
                if y[0] == 'agg' and y[3] == 'Some':
                    for z in strip(y[5][0], through_calls={'clone'}):
                        if not (z[0] == 'agg' and z[2] == ol):
                            return True
                    continue
                if y[0] == 'call' and y[1].rsplit('::', 1)[-1] in ('map', 'then_some', 'then', 'and_then'):
                    continue   # rebuilt through an adaptor: its closure's aggregate is examined above
                return True
    return False


# ---------------------------------------------------------------------------------- IDENT (C04)

def _src_place(body, o):
    from .panics import source_place
    return source_place(body, o)


def _ctor_roles(f, adt, n_args):
    """field roles from the public constructor `new(a, b, ..)`: {param index: field name}"""
    news = [b for b in f.impl_bodies(adt) if b.name == 'new' and b.d.get('pub') and b.arg_count == n_args]
    if len(news) != 1:
        raise anchors.AnchorMissing('public constructor new/%d of %s: %d' % (n_args, adt, len(news)))
    b = news[0]
    roles = {}
    for pt, s in b.points():
        if s['k'] == 'assign' and s['r']['k'] == 'agg' and s['r'].get('path') == adt:
            for n, o in zip(s['r']['fields'], s['r']['ops']):
                for x in walk(b.expr_of_operand(o)):
                    if x[0] == 'arg':
                        roles[x[1]] = n
                        break
    return roles


def rule_ident(ctx):
    f = ctx.facts()
    r = RuleResult('IDENT', 'OriginalSource leaves emit identity mappings (original line/column are the very values reported as '
                            'generated line/column, source index 0, no name) and announce exactly (index 0, its name, its own text)')
    r.floor = 2
    osrc = anchors.adt_by_name(f, 'OriginalSource')
    st = anchors.trait_path(f, 'StreamChunks')
    ol = anchors.adt_by_name(f, 'OriginalLocation')['path']
    mp = anchors.adt_by_name(f, 'Mapping')['path']
    roles = _ctor_roles(f, osrc['path'], 2)   # new(value, name)
    f_value, f_name = roles.get(1), roles.get(2)
    if not f_value or not f_name:
        raise anchors.AnchorMissing('OriginalSource::new(value, name) field roles: %r' % roles)
    bodies = [b for b in f.body_list if b.promoted is None and b.d.get('impl_adt') == osrc['path'] and
              b.d.get('impl_trait') == st]
    if not bodies:
        raise anchors.AnchorMissing('StreamChunks impl of OriginalSource')
    # helper functions of the crate that build the Mapping for this stream are part of it
    helpers = []
    for b in list(bodies):
        for pt, t in b.calls():
            c = t.get('callee')
            hb = f.body(c.get('resolved') or c['path']) if c else None
            if hb is not None and hb.d['kind'] != 'Closure' and hb not in helpers and hb not in bodies and \
                    'Mapping' in hb.d.get('sig', '').split('->')[-1]:
                helpers.append(hb)
    scan = bodies + [m for hb in helpers for m in group_of(f, hb)]
    for b in scan:
        for pt, s in b.points():
            if not (s['k'] == 'assign' and s['r']['k'] == 'agg' and s['r'].get('path') == mp):
                continue
            mops = dict(zip(s['r']['fields'], s['r']['ops']))
            oe = b.expr_of_operand(mops['original'])
            loc = None
            for x in walk(oe):
                if x[0] == 'agg' and x[2] == ol:
                    loc = x
            if loc is None:
                if oe[0] == 'agg' and oe[3] == 'None':
                    continue  # unmapped chunk (bare newline)
                r.site('%s: mapping with a non-literal original' % b.path, s['s'], 'violation')
                r.violation('%s:non-literal-original' % b.path, s['s'], b.path, 'mapping original is not a literal location (unrecognised idiom)',
                            reason='unrecognised-idiom')
                continue
            lops = dict(zip(loc[4], loc[5]))
            gl = b.expr_of_operand(mops['generated_line'])
            gc = b.expr_of_operand(mops['generated_column'])
            problems = []
            if lops['original_line'] != gl:
                problems.append('original_line is not the value reported as generated_line')
            if lops['original_column'] != gc:
                problems.append('original_column is not the value reported as generated_column')
            if lops['source_index'] != ('const', 0):
                problems.append('source_index is not the constant 0')
            ni = lops['name_index']
            if not (ni[0] == 'agg' and ni[3] == 'None'):
                problems.append('name_index is not None')
            # no write to the line/column variables between building the location and the mapping
            lpt = loc[6]
            for fld in ('generated_line', 'generated_column'):
                sp = _src_place(b, mops[fld])
                if sp is not None and not sp['pr']:
                    from ..rng import writes_to
                    if lpt[0] != pt[0] and writes_to(b, (sp['l'],), lpt, pt):
                        problems.append('%s variable is written between the two reads' % fld)
            ok = not problems
            r.site('%s: identity mapping literal' % b.path, s['s'], 'ok' if ok else 'violation')
            if not ok:
                r.violation('%s:mapping' % b.path, s['s'], b.path,
                            'OriginalSource emits a mapping that is not the identity: %s — every token is attributed to the wrong '
                            'original position' % '; '.join(problems))
        for pt, t, kind, ops in callback_calls(b):
            if kind != 'source' or not ops:
                continue
            problems = []
            if ops[0] != ('const', 0):
                problems.append('announced index is not 0')
            flds = {x[2] for x in walk(ops[1]) if x[0] == 'field' and x[3] == osrc['path']}
            if flds != {f_name}:
                problems.append('announced file name is not the name field')
            cont_ok = False
            for x in strip(ops[2], through_calls=set()):
                if x[0] == 'agg' and x[3] == 'Some':
                    if {y[2] for y in walk(x[5][0]) if y[0] == 'field' and y[3] == osrc['path']} == {f_value}:
                        cont_ok = True
            if not cont_ok:
                problems.append('announced content is not Some(own text)')
            ok = not problems
            r.site('%s: announces (0, name, Some(text))' % b.path, t['s'], 'ok' if ok else 'violation')
            if not ok:
                r.violation('%s:announce' % b.path, t['s'], b.path, 'source announcement of an OriginalSource is wrong: ' + '; '.join(problems))
    r.check_floor()
    return r


# ---------------------------------------------------------------------------------- ROOT / EAGER (C08, C11)

def map_announcers(f):
    """functions with a &SourceMap parameter that iterate its sources() and call a source callback"""
    sm = anchors.adt_by_name(f, 'SourceMap')['path']
    out = []
    for b in f.body_list:
        if b.promoted is not None or b.d['kind'] == 'Closure':
            continue
        params = [i for i in range(1, b.arg_count + 1) if b.local_ty(i).replace("'a ", '').startswith('&source::SourceMap')
                  or (b.locals[i].get('adt') == sm and b.local_ty(i).startswith('&'))]
        if not params:
            continue
        calls_sources = any(t.get('callee') and t['callee']['name'] == 'sources' and t['callee'].get('impl_adt') == sm
                            for _, t in b.calls())
        src_cbs = [(pt, t, ops) for pt, t, kind, ops in callback_calls(b) if kind == 'source']
        if calls_sources and src_cbs:
            out.append((b, params, src_cbs))
    return out, sm


def stream_variants(f):
    """functions with a &SourceMap parameter that announce its sources directly or through a crate-local helper:
    [(body, [announcement points], announces_names: bool)]"""
    direct, sm = map_announcers(f)
    dkeys = {b.key: b for b, _, _ in direct}
    out = []
    for b in f.body_list:
        if b.promoted is not None or b.d['kind'] == 'Closure':
            continue
        pts, names = [], False
        for pt, t, kind, ops in callback_calls(b):
            if kind == 'source':
                pts.append(pt)
            if kind == 'name':
                names = True
                pts.append(pt)
        for pt, t in b.calls():
            c = t.get('callee')
            hb = f.body(c.get('resolved') or c['path']) if c else None
            if hb is None or hb.d['kind'] == 'Closure' or hb is b or closure_kind_streams(f, hb):
                continue
            kinds = {k for m in group_of(f, hb) for _, _, k, _ in callback_calls(m)}
            if kinds and kinds <= {'source', 'name'}:
                pts.append(pt)
                if 'name' in kinds:
                    names = True
        has_map_param = any(b.locals[i].get('adt') == sm and b.local_ty(i).startswith('&') for i in range(1, b.arg_count + 1))
        if pts and has_map_param and (b.key in dkeys or any(True for _ in [0])):
            # only functions that also deliver chunks (directly or in closures) are streaming variants
            delivers = any(k == 'chunk' for m in group_of(f, b) for _, _, k, _ in callback_calls(m))
            if delivers:
                out.append((b, pts, names))
    return out, sm


def rule_root(ctx):
    f = ctx.facts()
    r = RuleResult('ROOT', 'every streaming variant that announces the sources of a map applies sourceRoot, announces the enumeration '
                           'index of that very iteration, and attaches the content stored under that index')
    r.floor = 1
    ann, sm = map_announcers(f)
    for b, params, src_cbs in ann:
        for pt, t, ops in src_cbs:
            problems = []
            if not ops:
                problems.append('callback arguments are not a tuple literal')
            else:
                # index: derives from enumerate() over sources()
                c0 = [x[1].rsplit('::', 1)[-1] for x in walk(ops[0]) if x[0] == 'call']
                if not ('enumerate' in c0 and 'sources' in c0):
                    problems.append('announced index is not the enumeration index over sources()')
                # name: through a function whose cone reads source_root()
                rooted = False
                for x in walk(ops[1]):
                    if x[0] == 'call':
                        cb = f.body(x[1])
                        if cb is not None and any(tt.get('callee') and tt['callee']['name'] == 'source_root'
                                                  and tt['callee'].get('impl_adt') == sm for _, tt in cb.calls()):
                            if any(y[0] == 'call' and y[1].rsplit('::', 1)[-1] == 'enumerate' for a in x[2] for y in walk(a)):
                                rooted = True
                        if x[1].endswith('::source_root'):
                            rooted = True
                if not rooted:
                    problems.append('announced name does not go through sourceRoot')
                c2 = [x for x in walk(ops[2]) if x[0] == 'call' and x[1].endswith('::get_source_content')]
                if not c2 or not any(y[0] == 'call' and y[1].rsplit('::', 1)[-1] == 'enumerate' for y in walk(c2[0])):
                    problems.append('announced content is not get_source_content(same index)')
            ok = not problems
            r.site('%s: source announcement uses (enumeration index, sourceRoot + source, content[index])' % b.path, t['s'],
                   'ok' if ok else 'violation')
            if not ok:
                r.violation('%s:announce' % b.path, t['s'], b.path,
                            'this streaming variant announces a map\'s sources wrongly: %s (differs from its sibling variants; '
                            'shows only for this (columns, final) mode)' % '; '.join(problems))
    # the root is applied verbatim: whatever reads source_root() only tests it (empty? ends with '/'?) or formats it — it is
    # never transformed (trimmed, lower-cased, ...) before being joined with the source
    VERBATIM = {'ends_with', 'starts_with', 'is_empty', 'len', 'eq', 'ne', 'new_display', 'fmt', 'as_str', 'as_ref', 'deref',
                'as_deref', 'unwrap', 'unwrap_or', 'unwrap_or_default', 'map', 'is_some', 'is_none', 'clone', 'to_owned',
                'to_string', 'into', 'from', 'push_str', 'as_bytes', 'last', 'chars', 'borrow'}
    THROUGH_ROOT = {'deref', 'as_deref', 'unwrap', 'as_ref', 'unwrap_or', 'unwrap_or_default', 'as_str', 'borrow'}
    # parameters of crate-local functions that receive the root value from a caller (fix-point over call sites)
    root_params = set()

    def is_root(b, e):
        for x, _fs in access_paths(e, through_calls=THROUGH_ROOT):
            if x[0] == 'call' and x[1].endswith('::source_root'):
                return True
            if x[0] == 'arg' and (x[3], x[1]) in root_params:
                return True
        return False
    changed = True
    while changed:
        changed = False
        for b in f.body_list:
            if b.promoted is not None or b.d.get('impl_adt') == sm:
                continue
            for pt, t in b.calls():
                c = t.get('callee')
                hb = f.body(c.get('resolved') or c['path']) if c else None
                if hb is None or hb.d['kind'] == 'Closure':
                    continue
                for i, a in enumerate(t['args']):
                    if (hb.key, i + 1) not in root_params and is_root(b, b.expr_of_operand(a)):
                        root_params.add((hb.key, i + 1))
                        changed = True
    for b in f.body_list:
        if b.promoted is not None:
            continue
        roots_ = [pt for pt, t in b.calls() if t.get('callee') and t['callee']['name'] == 'source_root'
                  and t['callee'].get('impl_adt') == sm]
        if (not roots_ and not any(k == b.key for k, _ in root_params)) or b.d.get('impl_adt') == sm:
            continue
        for pt, t in b.calls():
            c = t.get('callee')
            if not c or not t['args'] or c['name'] == 'source_root':
                continue
            e = b.expr_of_operand(t['args'][0])
            derived = is_root(b, e)
            if not derived:
                continue
            hb = f.body(c.get('resolved') or c['path'])
            ok = c['name'] in VERBATIM or (hb is not None and hb.d['kind'] != 'Closure')   # a local function: checked at its own uses
            r.site('%s: sourceRoot value used by `%s`' % (b.path, c['name']), t['s'], 'ok' if ok else 'violation')
            if not ok:
                r.violation('%s:root-transformed:%s' % (b.path, c['name']), t['s'], b.path,
                            'the sourceRoot string is transformed by `%s` before it is joined with the source: roots such as '
                            '"webpack:///" are no longer applied verbatim' % c['path'])
    r.check_floor()
    return r


def _loops(b):
    from .panics import loops, loop_blocks
    out = []
    for h, srcs in loops(b).items():
        out.append((h, loop_blocks(b, h, srcs)))
    return out


def rule_eager(ctx):
    f = ctx.facts()
    r = RuleResult('EAGER', 'eager announcers announce before they can deliver: every point that can deliver a mapped chunk is dominated '
                            'by the completed announcement loop(s); a variant that never announces names overwrites the name index with '
                            'None before every emission')
    r.floor = 3
    variants, sm = stream_variants(f)
    osrc = anchors.adt_by_name(f, 'OriginalSource')['path']
    st = anchors.trait_path(f, 'StreamChunks')
    extra = [b for b in f.body_list if b.promoted is None and b.d['kind'] != 'Closure' and b.d.get('impl_adt') == osrc
             and b.d.get('impl_trait') == st]
    targets = [(b, [(pt, None, None) for pt, t, kind, ops in callback_calls(b) if kind == 'source'], False) for b in extra] + \
              [(b, [(pt, None, None) for pt in pts], names) for b, pts, names in variants]
    for b, src_cbs, announces_names in targets:
        members = group_of(f, b)
        loops_ = _loops(b)
        name_cbs = [(None, None)] if announces_names else []
        # delivering points in the parent: direct chunk callback calls + creation points of closures that call it
        deliver = [(pt, t['s']) for pt, t, kind, ops in callback_calls(b) if kind == 'chunk']
        delivering_closures = [m for m in members if m is not b and any(k == 'chunk' for _, _, k, _ in callback_calls(m))]
        for pt, s in b.points():
            if s['k'] == 'assign' and s['r']['k'] == 'agg' and s['r'].get('ak') == 'closure' and \
                    any(s['r'].get('path') == m.path for m in delivering_closures):
                deliver.append((pt, s['s']))
        problems = []
        for apt, at, _ in src_cbs:
            inloop = [(h, blk) for h, blk in loops_ if apt[0] in blk]
            for dpt, dsite in deliver:
                if inloop:
                    h, blk = inloop[0]
                    if dpt[0] in blk or not b.dominates((h, 0), dpt):
                        problems.append('delivery at %s is not after the announcement loop' % dsite)
                elif not b.dominates(apt, dpt):
                    problems.append('delivery at %s is not dominated by the announcement' % dsite)
        ok = not problems
        r.site('%s: %d announcement sites complete before %d delivery points' % (b.path, len(src_cbs), len(deliver)),
               b.span(), 'ok' if ok else 'violation')
        if not ok:
            r.violation('%s:order' % b.path, b.span(), b.path, 'a chunk can be delivered before its source/name index is announced: ' + problems[0])
        # names
        if not name_cbs:
            for m in members:
                for pt, t, kind, ops in callback_calls(m):
                    if kind != 'chunk' or not ops:
                        continue
                    me = inline(f, ops[1], depth=2)
                    safe = False
                    lits = [x for x in strip(me, through_calls=set()) if x[0] == 'agg' and x[2] and x[2].endswith('::Mapping')]
                    if lits:
                        safe = True
                        for lit in lits:
                            orig = dict(zip(lit[4], lit[5])).get('original')
                            for x in strip(orig, through_calls=set()):
                                if x[0] == 'agg' and x[3] == 'None':
                                    continue
                                locs = [y for y in walk(x) if y[0] == 'agg' and y[2] and y[2].endswith('::OriginalLocation')]
                                if not locs:
                                    safe = False
                                for y in locs:
                                    ni = dict(zip(y[4], y[5])).get('name_index')
                                    if not (ni[0] == 'agg' and ni[3] == 'None'):
                                        safe = False
                    else:
                        # forwarded mapping mutated in place: a dominating write of None into `.name_index`
                        for pt2, s2 in m.points():
                            if s2['k'] == 'assign' and s2['p']['pr'] and isinstance(s2['p']['pr'][-1], dict) and \
                                    s2['p']['pr'][-1].get('n') == 'name_index' and m.dominates(pt2, pt):
                                v = m.expr_of_operand(s2['r']['o']) if s2['r']['k'] == 'use' else None
                                if v and v[0] == 'agg' and v[3] == 'None':
                                    safe = True
                                if s2['r']['k'] == 'agg' and s2['r'].get('variant') == 'None':
                                    safe = True
                    r.site('%s: emits no name index (names are never announced here)' % m.path, t['s'], 'ok' if safe else 'violation')
                    if not safe:
                        r.violation('%s:name-without-announce' % b.path, t['s'], m.path,
                                    'this variant never announces names but can emit a mapping that still carries a name index')
    r.check_floor()
    return r


# ---------------------------------------------------------------------------------- ADVANCE (C06)

def rule_advance(ctx):
    f = ctx.facts()
    r = RuleResult('ADVANCE', 'ReplaceSource advances the original column of a split segment only under the content check (the recorded '
                              'original text equals the skipped generated text)')
    r.floor = 1
    R = anchors.replace_source(f)
    st = anchors.trait_path(f, 'StreamChunks')
    ol = anchors.adt_by_name(f, 'OriginalLocation')['path']
    roots = [b for b in f.body_list if b.promoted is None and b.d['kind'] != 'Closure' and b.d.get('impl_adt') == R['adt']
             and b.d.get('impl_trait') == st]
    if not roots:
        raise anchors.AnchorMissing('StreamChunks impl of ReplaceSource')
    members = group_of(f, roots[0])
    # the content table: filled by the inner on_source closure
    src_cl = [m for m in members if closure_kind(m) == 'source']
    org = Origins(f, members)
    content_tables = set()
    for m in src_cl:
        for pt, t in m.calls():
            c = t.get('callee')
            if c and c['name'] == 'insert' and len(t['args']) == 3:
                content_tables.add(org.table_root(m.expr_of_operand(t['args'][0])))

    def reads_content(body, seen=None):
        """does the cone of this closure/fn read a content table?"""
        seen = seen or set()
        if body.key in seen:
            return False
        seen.add(body.key)
        for pt, t in body.calls():
            c = t.get('callee')
            if not c:
                continue
            if c['name'] in ('get', 'get_mut') and t['args'] and org.table_root(body.expr_of_operand(t['args'][0])) in content_tables:
                return True
            for a in t['args']:
                for x in walk(body.expr_of_operand(a)):
                    if x[0] in ('closure',) or (x[0] == 'agg' and x[1] == 'closure'):
                        cb = f.body(x[1] if x[0] == 'closure' else x[2])
                        if cb is not None and reads_content(cb, seen):
                            return True
            tgt = c.get('resolved') or c['path']
            cb = f.body(tgt)
            if cb is not None and reads_content(cb, seen):
                return True
            # calling a captured closure: FnMut::call on an upvar closure value
            if c['name'] in ('call', 'call_mut', 'call_once') and c.get('resolved_closure'):
                cb = f.body(c.get('resolved'))
                if cb is not None and reads_content(cb, seen):
                    return True
        return False
    for m in members:
        for pt, s in m.points():
            if s['k'] != 'assign' or not s['p']['pr']:
                continue
            last = s['p']['pr'][-1]
            if not (isinstance(last, dict) and last.get('n') == 'original_column' and last.get('o') == ol):
                continue
            # control dependence: a dominating switch whose discriminant derives from filter(<closure reading content>)
            ok = False
            stale = False
            for d in m.dom().get(pt[0], set()):
                t = m.term(d)
                if t['k'] != 'switch' or t['d']['k'] not in ('copy', 'move'):
                    continue
                e = m.expr_of_operand(t['d'])
                for x in walk(e):
                    if x[0] == 'call' and x[1].rsplit('::', 1)[-1] in ('filter', 'is_some_and', 'then', 'then_some') and len(x[2]) >= 2:
                        cl = org.closure_body(x[2][-1])
                        if cl is not None and reads_content(cl):
                            # the verdict must be computed here, for this site's text: the predicate returns the result of the
                            # content check itself, not a verdict remembered from another site
                            fresh = True
                            for y in strip(cl.expr_of_local(0), through_calls=set()):
                                if y[0] not in ('call', 'icall'):
                                    fresh = False
                                    continue
                                tt = cl.term(y[3][0]) if y[0] == 'call' else None
                                tgt = None
                                if tt is not None and tt.get('callee'):
                                    tgt = f.body(tt['callee'].get('resolved') or tt['callee']['path'])
                                if tgt is None or not reads_content(tgt):
                                    fresh = False
                            if fresh:
                                ok = True
                            else:
                                stale = True
                    elif x[0] == 'call':
                        cb = f.body(x[1])
                        if cb is not None and reads_content(cb):
                            ok = True
            r.site('%s: original_column advanced under the content check' % m.path, s['s'], 'ok' if ok else 'violation')
            if not ok:
                r.violation('%s:original_column' % roots[0].path, s['s'], m.path,
                            ('original column is advanced under a content-check verdict that is remembered from another site, not '
                             'computed for the text skipped here' if stale else
                             'original column is advanced without a dominating content check') + ': for an inner source whose original '
                            'text differs from the generated text (SourceMapSource) columns are pushed right by generated-text lengths')
    r.check_floor()
    return r


# ---------------------------------------------------------------------------------- STICKY (C04, C13)

def rule_sticky(ctx):
    """a pending-close flag is never overwritten while it may still be set"""
    from ..sccp import Sccp
    f = ctx.facts()
    r = RuleResult('STICKY', 'ConcatSource\'s "a mapping is still open and must be closed" flag is sticky: it is cleared only right after a test '
                             'that found it set (where the close is emitted or proven unnecessary) and otherwise only ever OR-ed, so a child '
                             'that produces nothing (an empty source) cannot make the pending close disappear')
    r.floor = 3
    cc = anchors.adt_by_name(f, 'ConcatSource')
    st = anchors.trait_path(f, 'StreamChunks')
    roots = [b for b in f.body_list if b.promoted is None and b.d['kind'] != 'Closure' and b.d.get('impl_adt') == cc['path']
             and b.d.get('impl_trait') == st]
    if len(roots) != 1:
        raise anchors.AnchorMissing('StreamChunks impl of ConcatSource')
    root = roots[0]
    members = group_of(f, root)
    S = Sccp(f, root, {True, False})   # only used for its upvar resolution
    # candidate flags: bool locals of the root captured by reference by a closure and tested before an unmapped (original: None,
    # chunk None) emission
    cells = {}
    for m in members:
        for pt, t in m.points():
            if t['k'] != 'switch' or t['d']['k'] not in ('copy', 'move'):
                continue
            cell = _cell_of(S, m, root, t['d'])
            if cell is not None:
                cells.setdefault(cell, []).append((m, pt, t))
    flags = []
    for cell, tests in cells.items():
        if root.local_ty(cell) != 'bool':
            continue
        # is there a closing emission (chunk-callback with original None) dominated by the true edge of one of the tests?
        for m, pt, t in tests:
            true_t = t['otherwise']
            for cpt, ct, kind, ops in callback_calls(m):
                if kind == 'chunk' and (true_t == cpt[0] or true_t in m.dom().get(cpt[0], set())):
                    # a user-named boolean that is assigned in several places and guards a chunk emission: a pending flag
                    if root.local_name(cell) and cell not in flags:
                        flags.append(cell)
    if not flags:
        raise anchors.AnchorMissing('no pending-close flag found in ConcatSource::stream_chunks')
    for cell in flags:
        tests = cells[cell]
        for m in members:
            for pt, s in m.points():
                if s['k'] != 'assign':
                    continue
                tgt = None
                if m is root and not s['p']['pr'] and s['p']['l'] == cell:
                    tgt = cell
                elif m is not root:
                    up = S.upvar_parent_local(m, s['p'])
                    if up is None and s['p']['pr'] == ['*']:
                        ds = m.whole_defs(s['p']['l'])
                        if len(ds) == 1 and ds[0][1] == 'assign' and ds[0][2]['r']['k'] == 'use' and ds[0][2]['r']['o']['k'] in ('copy', 'move'):
                            q = ds[0][2]['r']['o']['p']
                            up = S.upvar_parent_local(m, {'l': q['l'], 'pr': q['pr'] + ['*']})
                    if up is not None and up[0] is root and up[1] == cell:
                        tgt = cell
                if tgt is None:
                    continue
                val = s['r']['o'].get('bool') if s['r']['k'] == 'use' and s['r']['o']['k'] == 'const' else None
                edge = _dominating_edge(S, m, root, cell, pt)
                carry = False
                if val is None and s['r']['k'] == 'use' and s['r']['o']['k'] in ('copy', 'move') and not s['r']['o']['p']['pr']:
                    V = s['r']['o']['p']['l']
                    ds = m.whole_defs(V)
                    if ds and all(k == 'assign' and ((d['r']['k'] == 'use' and d['r']['o']['k'] == 'const' and d['r']['o'].get('bool') is True)
                                                      or _dominating_edge(S, m, root, cell, dpt) == 'false') for dpt, k, d in ds):
                        carry = True
                is_init = False
                if m is root and val is not None:
                    others = [p2 for p2, s2 in root.points() if p2 != pt and (
                        (s2['k'] == 'assign' and not s2['p']['pr'] and s2['p']['l'] == cell) or
                        (s2['k'] == 'switch' and _cell_of(S, root, root, s2['d']) == cell) or
                        (s2['k'] == 'assign' and s2['r']['k'] == 'ref' and not s2['r']['p']['pr'] and s2['r']['p']['l'] == cell))]
                    is_init = all(root.dominates(pt, p2) for p2 in others) and bool(others)
                if is_init:
                    ok, how = True, 'initialisation'
                elif carry:
                    ok, how = True, 'OR-carry: stays set on the path where it was set'
                elif val is True:
                    ok, how = True, 'sets the flag'
                elif val is False and edge == 'true':
                    ok, how = True, 'clears it after a test that found it set'
                elif edge == 'false':
                    ok, how = True, 'assigned where the flag is known to be clear'
                elif val is False and not _reaches_test_first(m, root, pt):
                    ok, how = True, 'initialisation'
                else:
                    ok, how = False, 'overwritten while it may be set'
                if m is root and not root.dom().get(pt[0]):
                    continue
                if m is root and pt[0] == 0 and val is False:
                    ok, how = True, 'initialisation'
                r.site('%s: pending-close flag assignment — %s' % (m.path, how), s['s'], 'ok' if ok else 'violation')
                if not ok:
                    r.violation('%s:overwrite' % root.path, s['s'], m.path,
                                'the pending-close flag is overwritten by a value that does not include its old value, at a point where '
                                'it may still be set: a child producing no chunks (an empty source) makes the closing segment disappear, '
                                'so following unmapped text is attributed to the previous original')
    r.check_floor()
    return r


def _cell_of(S, m, root, o):
    """root-local index of the bool cell an operand reads (directly in the root, or through a by-ref upvar), else None"""
    if o['k'] not in ('copy', 'move'):
        return None
    p = o['p']
    if m is root:
        if not p['pr']:
            ds = m.whole_defs(p['l'])
            # temp copy of the cell
            if len(ds) == 1 and ds[0][1] == 'assign' and ds[0][2]['r']['k'] == 'use' and ds[0][2]['r']['o']['k'] in ('copy', 'move') \
                    and not ds[0][2]['r']['o']['p']['pr'] and len(m.defs(p['l'])) == 1:
                return ds[0][2]['r']['o']['p']['l']
            return p['l']
        return None
    # closure: follow temp copies to the upvar read
    cur = p
    for _ in range(4):
        if cur['pr']:
            break
        ds = m.whole_defs(cur['l'])
        if len(ds) == 1 and ds[0][1] == 'assign' and ds[0][2]['r']['k'] == 'use' and ds[0][2]['r']['o']['k'] in ('copy', 'move'):
            cur = ds[0][2]['r']['o']['p']
        else:
            break
    up = S.upvar_parent_local(m, cur)
    if up is None and cur['pr'] == ['*']:
        ds = m.whole_defs(cur['l'])
        if len(ds) == 1 and ds[0][1] == 'assign' and ds[0][2]['r']['k'] == 'use' and ds[0][2]['r']['o']['k'] in ('copy', 'move'):
            q = ds[0][2]['r']['o']['p']
            up = S.upvar_parent_local(m, {'l': q['l'], 'pr': q['pr'] + ['*']})
    if up is not None and up[0] is root and isinstance(up[1], int):
        return up[1]
    return None


def _dominating_edge(S, m, root, cell, pt):
    """'true' / 'false' if pt is dominated by that edge of a switch on the cell (nearest one), else None"""
    best = None
    dom = m.dom().get(pt[0], set())
    for d in dom:
        t = m.term(d)
        if t['k'] != 'switch' or _cell_of(S, m, root, t['d']) != cell:
            continue
        false_t = [x[1] for x in t['targets'] if x[0] == 0]
        true_t = t['otherwise']
        for name, tg in (('true', [true_t]), ('false', false_t)):
            for g in tg:
                if (g == pt[0] or g in dom) and len(m.preds(g)) == 1:
                    if best is None or len(m.dom().get(d, ())) > best[1]:
                        best = (name, len(m.dom().get(d, ())))
    return best[0] if best else None


def _reaches_test_first(m, root, pt):
    return m is not root or pt[0] != 0


# ---------------------------------------------------------------------------------- FIRST-MAPPED (C08)

def _mapping_roots(m, e, field, mp):
    """root expressions of the Mapping object(s) whose `field` the expression reads"""
    out = set()
    for x in walk(e):
        if x[0] == 'field' and x[2] == field and x[3] == mp:
            for r_ in strip(x[1], through_calls={'deref', 'deref_mut', 'as_ref', 'as_mut', 'borrow', 'borrow_mut'}):
                out.add(r_)
    return out


def _original_some_edge(m, pt, roots, mp):
    """is pt dominated by an edge that establishes that `original` of the same Mapping object is Some?"""
    dom = m.dom().get(pt[0], set())
    for d in dom:
        t = m.term(d)
        if t['k'] != 'switch' or t['d']['k'] not in ('copy', 'move'):
            continue
        e = m.expr_of_operand(t['d'])
        if not (_mapping_roots(m, e, 'original', mp) & roots):
            continue
        zero_t = [x[1] for x in t['targets'] if x[0] == 0]
        one_t = [x[1] for x in t['targets'] if x[0] == 1]
        top = e
        while top[0] in ('cast', 'ref', 'deref'):
            top = top[1]
        good = []
        if top[0] == 'discr':
            good = one_t or ([t['otherwise']] if zero_t else [])
        elif top[0] == 'call' and top[1].rsplit('::', 1)[-1] == 'is_none':
            good = zero_t
        elif top[0] == 'call' and top[1].rsplit('::', 1)[-1] == 'is_some':
            good = [t['otherwise']] if zero_t else one_t
        for g in good:
            if (g == pt[0] or g in dom) and len(m.preds(g)) == 1:
                return True
    return False


def rule_first_mapped(ctx):
    f = ctx.facts()
    r = RuleResult('FIRST-MAPPED', 'the line-only variants keep each line\'s first *mapped* segment: the per-line cursor they advance from a '
                                   'segment\'s generated line is advanced only for segments that have an original location')
    r.floor = 1
    mp = anchors.adt_by_name(f, 'Mapping')['path']
    variants, sm = stream_variants(f)
    for b, pts, names in variants:
        if names:
            continue  # column variants announce names
        for m in group_of(f, b):
            for pt, s in m.points():
                if s['k'] != 'assign' or s['r']['k'] != 'use':
                    continue
                tty = s['p']['ty']
                if tty not in ('u32', 'usize', 'u64', 'i64'):
                    continue
                # target: a counter that is not itself part of a Mapping (a local of the function or a captured cell)
                if any(isinstance(x, dict) and x.get('o') == mp for x in s['p']['pr']):
                    continue
                # only user variables: a named local, or a write through a captured reference
                if not s['p']['pr']:
                    if not m.local_name(s['p']['l']):
                        continue
                elif s['p']['pr'] != ['*']:
                    continue
                e = m.expr_of_operand(s['r']['o'])
                roots = _mapping_roots(m, e, 'generated_line', mp)
                if not roots or not any(x[0] == 'bin' for x in walk(e)):
                    continue
                ok = _original_some_edge(m, pt, roots, mp)
                r.site('%s: line cursor advanced from a segment only when that segment is mapped' % m.path, s['s'], 'ok' if ok else 'violation')
                if not ok:
                    r.violation('%s:cursor' % b.path, s['s'], m.path,
                                'the per-line cursor is advanced from a segment\'s generated line without establishing that the segment has '
                                'an original: a line that starts with an unmapped segment loses its first mapped segment (columns=false)')
    r.check_floor()
    return r


# ---------------------------------------------------------------------------------- NAMECHECK (C09)

def rule_namecheck(ctx):
    f = ctx.facts()
    r = RuleResult('NAMECHECK', 'combined maps use an outer name for an inner-mapped segment only where the original text equals that name: every '
                                'lookup of the outer name table that can reach the name index of an inner-mapped location is dominated by '
                                'that comparison')
    r.floor = 1
    comps, ol = composites(f)
    for root, members, inner in comps:
        org = Origins(f, members)
        # outer name tables: filled by the name-kind closure passed directly by the root
        outer_tables = set()
        for m in inner:
            if closure_kind(m) == 'name' and m.d.get('parent') == root.path:
                for pt, t in m.calls():
                    c = t.get('callee')
                    if c and c['name'] == 'insert' and len(t['args']) == 3:
                        outer_tables.add(org.table_root(m.expr_of_operand(t['args'][0])))
        if not outer_tables:
            continue
        for m in members:
            for pt, s in m.points():
                if not (s['k'] == 'assign' and s['r']['k'] == 'agg' and s['r'].get('path') == ol):
                    continue
                ops = dict(zip(s['r']['fields'], s['r']['ops']))
                ole = m.expr_of_operand(ops['original_line'])
                from_mapping_param = any(
                    x[0] == 'arg' and x[1] == 3 and f.body(x[3]) is not None and closure_kind(f.body(x[3])) == 'chunk'
                    for x in value_walk(ole))
                if from_mapping_param or (org.origin(ole) & {'LOCAL', 'LOCAL?'}):
                    continue  # pass-through location: its line is the outer mapping's own
                ne = m.expr_of_operand(ops['name_index'])
                lookups = [x for x in walk(ne) if x[0] == 'call' and x[1].rsplit('::', 1)[-1] == 'get' and x[2]
                           and org.table_root(x[2][0]) in outer_tables and isinstance(x[3], tuple)]
                # a crate-local helper that receives an outer-name table performs the lookup on our behalf: the call site counts
                for pt2, t2 in m.calls():
                    c2 = t2.get('callee')
                    hb2 = f.body(c2.get('resolved') or c2['path']) if c2 else None
                    if hb2 is not None and hb2.d['kind'] != 'Closure' and c2['name'] not in ('get', 'get_mut', 'insert') and \
                            any(org.table_root(m.expr_of_operand(a)) in outer_tables for a in t2['args']) and \
                            any(y[0] == 'call' and y[3] == pt2 and y[1] == c2['path'] for y in walk(ne)):
                        lookups.append(('call', c2['path'], (), pt2))
                seen = set()
                for x in lookups:
                    gpt = x[3]
                    if gpt in seen:
                        continue
                    seen.add(gpt)
                    ok = False
                    for d in m.dom().get(gpt[0], set()):
                        t = m.term(d)
                        if t['k'] != 'switch' or t['d']['k'] not in ('copy', 'move'):
                            continue
                        e = m.expr_of_operand(t['d'])
                        top = e
                        while top[0] in ('cast', 'ref', 'deref'):
                            top = top[1]
                        if top[0] == 'call' and top[1].rsplit('::', 1)[-1] in ('eq', 'ne') and \
                                any(y[0] == 'call' and y[1].rsplit('::', 1)[-1] == 'get' and y[2] and org.table_root(y[2][0]) in outer_tables
                                    for a in top[2] for y in walk(a)):
                            zero_t = [z[1] for z in t['targets'] if z[0] == 0]
                            good = [t['otherwise']] if top[1].endswith('eq') else zero_t
                            for g in good:
                                if (g == gpt[0] or g in m.dom().get(gpt[0], set())) and len(m.preds(g)) == 1:
                                    ok = True
                    site = m.term(gpt[0])['s'] if gpt[1] == len(m.stmts(gpt[0])) else s['s']
                    r.site('%s: outer-name lookup feeding an inner-mapped location is guarded by the text comparison' % m.path, site,
                           'ok' if ok else 'violation')
                    if not ok:
                        r.violation('%s:outer-name' % root.path, site, m.path,
                                    'an outer name index can reach the name of an inner-mapped segment without the comparison of that name '
                                    'with the original text: a name is attached to original text that differs from it')
    r.check_floor()
    return r


# ---------------------------------------------------------------------------------- ENC-FIRST-MAPPED (C12) and LOCKSCOPE (C18)

def rule_enc_first_mapped(ctx):
    from .codec import find_buffers
    f = ctx.facts()
    r = RuleResult('ENC-FIRST-MAPPED', 'the line-only encoder keeps the first *mapped* segment of each line: it records a line as written '
                                       '(any state it derives from the segment\'s generated line) only for segments that have an original')
    r.floor = 1
    mp = anchors.adt_by_name(f, 'Mapping')['path']
    for (adt, fld), lst in find_buffers(f).items():
        if adt is None:
            continue
        encs = [m for m in f.body_list if m.promoted is None and m.d['kind'] != 'Closure' and m.d.get('impl_adt') == adt
                and m.arg_count == 2 and 'Mapping' in m.local_ty(2)]
        for m in encs:
            grp = group_of(f, m)
            reads_col = any(isinstance(x, dict) and x.get('o') == mp and x.get('n') == 'generated_column'
                            for g in grp for _, _, pl, _ in g.places() for x in pl['pr'])
            if reads_col:
                continue  # the full (column) encoder
            for g in grp:
                for pt, s in g.points():
                    if s['k'] != 'assign' or s['r']['k'] != 'use' or not s['p']['pr']:
                        continue
                    last = s['p']['pr'][-1]
                    if not (isinstance(last, dict) and last.get('o') == adt):
                        continue
                    e = g.expr_of_operand(s['r']['o'])
                    roots = _mapping_roots(g, e, 'generated_line', mp)
                    if not roots:
                        continue
                    ok = _original_some_edge(g, pt, roots, mp)
                    r.site('%s: state `%s` taken from the segment\'s line only for mapped segments' % (g.path, last.get('n')), s['s'],
                           'ok' if ok else 'violation')
                    if not ok:
                        r.violation('%s:%s' % (m.path, last.get('n')), s['s'], g.path,
                                    'the line-only encoder updates `%s` from a segment\'s generated line before establishing that the segment '
                                    'has an original: an unmapped chunk at the start of a line makes it drop the line\'s first mapped segment'
                                    % last.get('n'))
    r.check_floor()
    return r


def _mentions_param(shape, name):
    if name is None or not isinstance(shape, dict):
        return False
    if shape.get('param') == name or 'dyn' in shape:
        return True
    return any(_mentions_param(a, name) for a in (shape.get('args') or []))


def rule_lockscope(ctx):
    f = ctx.facts()
    r = RuleResult('LOCKSCOPE', 'the mutex guarding ReplaceSource\'s sorted index is never held across a call into a child source or a '
                                'caller-supplied callback: while the guard is live only std calls run, so no lock-order cycle through user '
                                'code can form and other observers are not blocked for the length of a stream')
    r.floor = 1
    R = anchors.replace_source(f)
    inner_param = None
    for fld in anchors.fields(f.adts[R['adt']]):
        if fld['name'] == R['inner']:
            a0 = anchors.shape_arg(fld['shape'])
            inner_param = a0.get('param') if isinstance(a0, dict) else None
    for b in f.body_list:
        if b.promoted is not None:
            continue
        for pt, t in b.calls():
            c = t.get('callee')
            if not (c and c['name'] == 'lock' and t['args']):
                continue
            e = b.expr_of_operand(t['args'][0])
            if not any(x[0] == 'field' and x[2] == R['sorted_index'] and x[3] == R['adt'] for x in walk(e)):
                continue
            # guard locals: the lock result and what it is unwrapped / moved into
            guards = {t['dest']['l']}
            changed = True
            while changed:
                changed = False
                for pt2, s2 in b.points():
                    if s2['k'] == 'call' and s2.get('callee') and s2['callee']['name'] in ('unwrap', 'expect', 'unwrap_or_else', 'into_inner') \
                            and s2['args'] and s2['args'][0]['k'] in ('move', 'copy') and s2['args'][0]['p']['l'] in guards \
                            and s2['dest']['l'] not in guards:
                        guards.add(s2['dest']['l'])
                        changed = True
                    if s2['k'] == 'assign' and s2['r']['k'] == 'use' and s2['r']['o']['k'] == 'move' and \
                            s2['r']['o']['p']['l'] in guards and not s2['p']['pr'] and s2['p']['l'] not in guards:
                        guards.add(s2['p']['l'])
                        changed = True
            escapes = 0 in guards
            # live region: blocks reachable from the lock until a drop of a guard local
            drops = {p2[0] for p2, s2 in b.points() if s2['k'] == 'drop' and s2['p']['l'] in guards and not s2['p']['pr']}
            region, st = set(), [pt[0]]
            while st:
                x = st.pop()
                if x in region:
                    continue
                region.add(x)
                if x in drops and x != pt[0]:
                    continue
                st.extend(b.succs(x))
            bad = []
            st_tr = anchors.trait_path(f, 'StreamChunks')
            src_tr = anchors.trait_path(f, 'Source')
            for pt2, t2 in b.calls():
                if pt2[0] not in region or pt2 == pt:
                    continue
                c2 = t2.get('callee')
                if c2 is None:
                    bad.append((t2['s'], 'indirect call'))
                elif c2.get('trait') in (st_tr, src_tr) or c2.get('impl_trait') in (st_tr, src_tr):
                    bad.append((t2['s'], 'call into a source (`%s`)' % c2['path']))
                elif c2['name'] in ('call', 'call_mut', 'call_once') and t2['arg_tys'] and 'dyn' in t2['arg_tys'][0]:
                    bad.append((t2['s'], 'caller-supplied callback'))
                elif c2.get('trait') and c2.get('tshapes') and _mentions_param(c2['tshapes'][0], inner_param):
                    # any trait method whose receiver is (built from) the wrapped source's type parameter runs user code:
                    # Hash / PartialEq / Debug of the child as much as its Source methods
                    bad.append((t2['s'], 'call into the wrapped source (`%s` on a value of its type parameter)' % c2['path']))
            if escapes:
                # the guard is returned: every caller holds it; they are checked as if they had locked themselves
                for cb in f.body_list:
                    for cpt, ct in cb.calls():
                        cc = ct.get('callee')
                        if cc and (cc.get('resolved') or cc['path']) == b.key:
                            gl = ct['dest']['l']
                            live = [p2 for p2, s2 in cb.points() if s2['k'] == 'drop' and s2['p']['l'] == gl and not s2['p']['pr']]
                            region2, st2 = set(), [cpt[0]]
                            dr = {p2[0] for p2 in live}
                            while st2:
                                x = st2.pop()
                                if x in region2:
                                    continue
                                region2.add(x)
                                if x in dr and x != cpt[0]:
                                    continue
                                st2.extend(cb.succs(x))
                            for pt3, t3 in cb.calls():
                                c3 = t3.get('callee')
                                if pt3[0] in region2 and pt3 != cpt and c3 and \
                                        (c3.get('trait') in (st_tr, src_tr) or c3.get('impl_trait') in (st_tr, src_tr)):
                                    bad.append((t3['s'], 'guard returned to %s, held across `%s`' % (cb.path, c3['path'])))
            ok = not bad
            r.site('%s: sorted-index guard is held over std calls only' % b.path, t['s'], 'ok' if ok else 'violation')
            for site, why in bad[:3]:
                r.violation('%s:held-across' % b.path, site, b.path,
                            'the sorted-index mutex is held across %s: other observers of the same source block for the whole stream, and a child '
                            'that synchronises with them deadlocks' % why)
    r.check_floor()
    return r


def _must_forward(f, m, depth=0, seen=()):
    """(ok, offending return block): does every normal path through body m reach a call of a dyn chunk callback (directly, or through
    a crate-local function / closure that itself always does), or record a pending close (store `true` into a captured bool)?"""
    stops = set()
    for pt, t, kind, ops in callback_calls(m):
        if kind == 'chunk':
            stops.add(pt[0])
    for pt, s in m.points():
        if s['k'] == 'assign' and s['p']['pr'] and s['p'].get('ty') == 'bool' and s['r']['k'] == 'use' \
                and s['r']['o']['k'] == 'const' and s['r']['o'].get('bool') is True:
            stops.add(pt[0])
    if depth < 3:
        for pt, t in m.calls():
            c = t.get('callee')
            if not c:
                continue
            hb = f.body(c.get('resolved') or c['path'])
            if hb is None and c['name'] in ('call_mut', 'call', 'call_once') and t['args']:
                # a call of a local closure value
                for x in walk(m.expr_of_operand(t['args'][0])):
                    if x[0] == 'agg' and x[1] == 'closure':
                        hb = f.body(x[2])
            if hb is not None and hb.key not in seen and hb.key != m.key:
                ok, _ = _must_forward(f, hb, depth + 1, seen + (m.key,))
                if ok:
                    stops.add(pt[0])
    reach = m.reachable(0, blocked=stops)
    bad = [bb for bb in m.return_blocks() if bb in reach]
    return (not bad), (bad[0] if bad else None)


def rule_forward_all(ctx):
    """ConcatSource never swallows a child's chunk notification"""
    f = ctx.facts()
    r = RuleResult('FORWARD-ALL', 'ConcatSource hands every chunk notification of a child on to its own consumer (translated), or records '
                                  'that a close is pending: no path through its chunk handler returns without either — in particular an '
                                  'unmapped notification (the position where a child stops attributing) is not dropped in final-source '
                                  'mode, where only the text may be omitted')
    r.floor = 1
    cc = anchors.adt_by_name(f, 'ConcatSource')
    st = anchors.trait_path(f, 'StreamChunks')
    roots = [b for b in f.body_list if b.promoted is None and b.d['kind'] != 'Closure' and b.d.get('impl_adt') == cc['path']
             and b.d.get('impl_trait') == st]
    if len(roots) != 1:
        raise anchors.AnchorMissing('StreamChunks impl of ConcatSource')
    root = roots[0]
    handlers = [m for m in group_of(f, root) if m.d['kind'] == 'Closure' and closure_kind(m) == 'chunk']
    if not handlers:
        # the handler may live in a helper the root calls
        for pt, t in root.calls():
            c = t.get('callee')
            hb = f.body(c.get('resolved') or c['path']) if c else None
            if hb is not None and hb.d['kind'] != 'Closure':
                handlers += [m for m in group_of(f, hb) if m.d['kind'] == 'Closure' and closure_kind(m) == 'chunk']
    for m in handlers:
        ok, bad = _must_forward(f, m)
        r.site('%s: every path forwards the notification or records a pending close' % m.path, m.span(), 'ok' if ok else 'violation')
        if not ok:
            t = m.term(bad)
            r.violation('%s:swallow' % root.path, t.get('s') or m.span(), m.path,
                        'a path through ConcatSource\'s chunk handler returns without calling the consumer\'s chunk callback and without '
                        'recording a pending close: the child\'s notification (for instance the unmapped position that ends a mapped '
                        'segment of a nested source) is dropped, and the following text is attributed to the previous original location')
    r.check_floor()
    return r


def rule_ctor_verbatim(ctx):
    """the constructors of SourceMapSource store a requested boolean option as given"""
    f = ctx.facts()
    r = RuleResult('CTOR-VERBATIM', 'what the caller passes to a SourceMapSource constructor (value, name, maps, original source, the removal '
                                    'request) is stored as given — a constant default or the caller\'s value through plain conversions, '
                                    'never filtered or computed from other inputs — so "removal of the original source is requested" and '
                                    '"the supplied inner map / original source" mean what the caller said')
    r.floor = 1
    adt = anchors.adt_by_name(f, 'SourceMapSource')
    bools = [fl['name'] for fl in anchors.fields(adt)]
    if not any(fl['ty'] == 'bool' for fl in anchors.fields(adt)):
        raise anchors.AnchorMissing('SourceMapSource has no bool field')
    for m in f.body_list:
        if m.promoted is not None or m.d.get('derived') or (m.d.get('impl_trait') or '').endswith('Clone'):
            continue
        for pt, s in m.points():
            if not (s['k'] == 'assign' and s['r']['k'] == 'agg' and s['r'].get('path') == adt['path']):
                continue
            for n, o in zip(s['r']['fields'], s['r']['ops']):
                if n not in bools:
                    continue
                e = inline(f, m.expr_of_operand(o), depth=2)
                bad = [x for x in walk(e) if x[0] in ('bin', 'un') or
                       (x[0] == 'call' and x[1].rsplit('::', 1)[-1] not in ('into', 'from', 'clone', 'copied', 'cloned', 'deref', 'unwrap_or_default',
                                                                            'unwrap_or', 'default', 'borrow', 'as_ref', 'to_string', 'to_owned',
                                                                            'new', 'into_owned', 'as_str', 'into_boxed_str'))]
                roots = {(rt[1], tuple(fs)) for rt, fs in access_paths(e) if rt[0] == 'arg'}
                ok = not bad and len(roots) <= 1
                r.site('%s: field `%s` is stored as given' % (m.path, n), s['s'], 'ok' if ok else 'violation')
                if not ok:
                    r.violation('%s:%s' % (m.path, n), s['s'], m.path,
                                'constructor filters or computes `%s` instead of storing the caller\'s value: what was supplied is silently '
                                'changed (e.g. removal of the original source switched off, or an inner map dropped, under a condition the '
                                'caller did not ask for)' % n)
    r.check_floor()
    return r


def rule_tee_forward(ctx):
    """the cache-filling tee hands every notification on to the caller"""
    f = ctx.facts()
    r = RuleResult('TEE-FORWARD', 'the function that streams a source once for two consumers (the caller\'s callbacks and the map being '
                                  'collected for the cache) forwards every chunk / source / name notification to the caller on every path: '
                                  'recording for the cache never replaces or conditions the delivery')
    r.floor = 3
    tees = []
    for b in f.body_list:
        if b.promoted is not None or b.d['kind'] == 'Closure' or not closure_kind_streams(f, b):
            continue
        inner = [m for m in group_of(f, b) if m.d['kind'] == 'Closure' and closure_kind(m)]
        # a tee: its callback closures feed an encoder as well as the outer callbacks
        feeds_encoder = any((t.get('callee') or {}).get('name') == 'encode' for m in inner for _, t in m.calls())
        if len({closure_kind(m) for m in inner}) == 3 and feeds_encoder and (b.d.get('impl_trait') is None):
            tees.append((b, inner))
    if not tees:
        raise anchors.AnchorMissing('no function that both forwards the three callbacks and feeds a mappings encoder')
    for b, inner in tees:
        for m in inner:
            kind = closure_kind(m)
            stops = {pt[0] for pt, t, k, ops in callback_calls(m) if k == kind}
            reach = m.reachable(0, blocked=stops)
            bad = [bb for bb in m.return_blocks() if bb in reach]
            ok = not bad
            r.site('%s: every path calls the caller\'s %s callback' % (m.path, kind), m.span(), 'ok' if ok else 'violation')
            if not ok:
                r.violation('%s:%s' % (b.path, kind), m.span(), m.path,
                            'the %s notification is not forwarded to the caller on some path (for instance only when columns are '
                            'requested): a consumer of the first, cache-filling stream misses an announcement that the chunks it receives '
                            'refer to' % kind)
    r.check_floor()
    return r


def rule_prefill(ctx):
    """lazily resolved translation tables are pre-filled with their sentinel for every announced key"""
    f = ctx.facts()
    r = RuleResult('PREFILL', 'a translation table whose readers treat a negative sentinel as "not resolved yet" (`get(k).unwrap_or(-2)`, '
                              '`== -2`) receives that sentinel for every key its child announces, in the announcement callback and on '
                              'every path: LinearMap pads the gaps below an inserted key with 0, which is a valid index, so a key that '
                              'was never pre-filled would read as "already mapped to entry 0"')
    r.floor = 3
    comps, ol = composites(f)
    for root, members, inner in comps:
        org = Origins(f, members)
        lazy = {}      # table root -> (sentinel, site)
        for m in members:
            for pt, t in m.calls():
                c = t.get('callee')
                if not c or c['name'] != 'unwrap_or' or len(t['args']) != 2:
                    continue
                a1 = t['args'][1]
                if a1['k'] != 'const' or not isinstance(a1.get('int'), int) or a1['int'] >= 0:
                    continue
                e = m.expr_of_operand(t['args'][0])
                for x in walk(e):
                    if x[0] == 'call' and x[1].rsplit('::', 1)[-1] in ('get', 'get_mut') and x[2]:
                        tr_ = org.table_root(x[2][0])
                        if tr_ is not None:
                            lazy.setdefault(tr_, (a1['int'], t['s'], m))
        for tr_, (sentinel, site, rm) in sorted(lazy.items(), key=repr):
            ok = False
            for m in inner:
                if closure_kind(m) not in ('source', 'name'):
                    continue
                stops = set()
                for pt, t in m.calls():
                    c = t.get('callee')
                    if c and c['name'] == 'insert' and len(t['args']) == 3 \
                            and org.table_root(m.expr_of_operand(t['args'][0])) == tr_:
                        # a sentinel or an already resolved value: either way the key gets an explicit entry
                        key_e = m.expr_of_operand(t['args'][1])
                        if any(x[0] == 'arg' and x[3] == m.key for x in walk(key_e)):
                            stops.add(pt[0])
                if stops and not any(rb in m.reachable(0, blocked=stops) for rb in m.return_blocks()):
                    ok = True
            tl = [x for x in walk(tr_) if x[0] == 'call'] if isinstance(tr_, tuple) else []
            name = None
            if isinstance(tr_, tuple) and len(tr_) > 3 and isinstance(tr_[3], tuple) and len(tr_[3]) == 2:
                # the table was created by a call at this point of the root body: name it after the variable that holds it
                try:
                    term = root.term(tr_[3][0])
                    loc = term['dest']['l'] if term['k'] == 'call' else None
                    for _ in range(4):
                        if loc is None or root.local_name(loc):
                            break
                        nxt = [s2['p']['l'] if k2 == 'assign' else s2['dest']['l'] for pt2, s2 in root.points()
                               for k2 in [s2['k']] if k2 in ('assign', 'call') and not (s2['p'] if k2 == 'assign' else s2['dest'])['pr']
                               and any(isinstance(a, dict) and a.get('k') in ('move', 'copy') and a['p']['l'] == loc and not a['p']['pr']
                                       for a in ([s2['r'].get('o')] + list(s2['r'].get('ops') or []) if k2 == 'assign' else s2['args']))]
                        loc = nxt[0] if nxt else None
                    if loc is not None and root.local_name(loc):
                        name = root.local_name(loc)
                except Exception:
                    name = None
            if name is None:
                name = 'table'
            dbg = root.d.get('debug') or []
            r.site('%s: lazily resolved table `%s` receives an explicit entry (sentinel or resolved value) for every announced key' % (root.path, name), site,
                   'ok' if ok else 'violation')
            if not ok:
                r.violation('%s:%s' % (root.path, name), site, rm.path,
                            'the table `%s` is read with a negative sentinel (%d) meaning "not resolved yet", but no announcement callback '
                            'stores a sentinel for every announced key on every path: when a higher key is resolved first, the padded '
                            'entries below it read as index 0 and segments are attributed to another file / name' % (name, sentinel))
    r.check_floor()
    return r


def rule_combine_when_inner(ctx):
    """SourceMapSource composes with its inner map whenever it has one"""
    f = ctx.facts()
    r = RuleResult('COMBINE-WHEN-INNER', 'a SourceMapSource that was given an inner source map streams (and therefore maps) through the '
                                         'combinator: the branch that chooses between the combined and the plain streaming tests the '
                                         'presence of `inner_source_map` itself, not a filtered or otherwise derived option')
    r.floor = 1
    adt = anchors.adt_by_name(f, 'SourceMapSource')
    inner_fields = [fl['name'] for fl in anchors.fields(adt) if 'Option<' in fl['ty'] and 'SourceMap' in fl['ty']]
    if len(inner_fields) != 1:
        raise anchors.AnchorMissing('SourceMapSource: Option<SourceMap> field: %s' % inner_fields)
    fld = inner_fields[0]
    st = anchors.trait_path(f, 'StreamChunks')
    src = anchors.trait_path(f, 'Source')
    bodies = [b for b in f.body_list if b.promoted is None and b.d['kind'] != 'Closure' and b.d.get('impl_adt') == adt['path']
              and ((b.d.get('impl_trait') == st and b.name == 'stream_chunks') or (b.d.get('impl_trait') == src and b.name == 'map'))]
    PASS = {'as_ref', 'as_deref', 'deref', 'borrow', 'as_mut', 'is_some', 'is_none', 'clone'}
    for b in bodies:
        for bi in range(len(b.blocks)):
            t = b.term(bi)
            if t['k'] != 'switch':
                continue
            e = b.expr_of_operand(t['d'])
            if not any(x[0] == 'field' and x[2] == fld and x[3] == adt['path'] for x in walk(e)):
                continue
            bad = [x[1].rsplit('::', 1)[-1] for x in walk(e) if x[0] == 'call' and x[1].rsplit('::', 1)[-1] not in PASS]
            ok = not bad
            r.site('%s: the dispatch tests `%s` itself' % (b.path, fld), t.get('s') or b.span(), 'ok' if ok else 'violation')
            if not ok:
                r.violation('%s:%s' % (b.path, fld), t.get('s') or b.span(), b.path,
                            'the choice between combined and plain streaming depends on `%s` after %s: a source that was given an inner '
                            'map is treated as if it had none under some condition (its segments are then neither re-attributed nor '
                            'removed, and the supplied original source is not reported)' % (fld, ', '.join('`%s`' % x for x in bad)))
    # the removal request reaches the combinator as stored: a bool argument of the combinator call that reads a bool field of the
    # source is that field and nothing else (no conjunction with other state)
    bool_fields = [fl['name'] for fl in anchors.fields(adt) if fl['ty'] == 'bool']
    for b in bodies:
        for pt, t in b.calls():
            c = t.get('callee')
            hb = f.body(c.get('resolved') or c['path']) if c else None
            if hb is None or hb.d['kind'] == 'Closure' or not closure_kind_streams(f, hb):
                continue
            for i, a in enumerate(t['args']):
                if (t.get('arg_tys') or [])[i:i + 1] != ['bool'] or a['k'] not in ('copy', 'move'):
                    continue
                e = b.expr_of_operand(a)
                top = e
                while top[0] in ('ref', 'deref'):
                    top = top[1]
                ok = top[0] == 'field' and top[3] == adt['path'] and top[2] in bool_fields
                pname = hb.local_name(i + 1) or ('#%d' % (i + 1))
                r.site('%s: flag `%s` of %s is a stored field of the source, as stored' % (b.path, pname, hb.path), t['s'],
                       'ok' if ok else 'violation')
                if not ok:
                    r.violation('%s:flag:%s' % (b.path, pname), t['s'], b.path,
                                'the flag `%s` handed to the combinator is not the request stored in the source but a value derived '
                                'from other state: under that state a requested removal is not carried out (or an unrequested one '
                                'is)' % pname)
    r.check_floor()
    return r


def rule_prefix_direction(ctx):
    """the recorded original text must start with the streamed text, not the other way round"""
    f = ctx.facts()
    r = RuleResult('PREFIX-DIRECTION', 'where a piece of recorded original content (a `WithIndices::substring` of a sourcesContent line) '
                                       'is compared with streamed text by `starts_with`, the recorded content is the haystack and the '
                                       'streamed text the needle: with the roles swapped a recorded line that ends early is a prefix of '
                                       'the expected text and the check passes although the contents differ')
    r.floor = 0
    for b in f.body_list:
        if b.promoted is not None:
            continue
        for pt, t in b.calls():
            c = t.get('callee')
            if not c or c['name'] != 'starts_with' or len(t['args']) != 2 or not c.get('local'):
                continue
            es = [b.expr_of_operand(a) for a in t['args']]
            der = [any(x[0] == 'call' and x[1].rsplit('::', 1)[-1] == 'substring' and 'WithIndices' in x[1] for x in walk(e)) for e in es]
            if der[0] == der[1]:
                continue
            ok = der[0]
            r.site('%s: recorded content is the haystack of starts_with' % b.path, t['s'], 'ok' if ok else 'violation')
            if not ok:
                r.violation('%s:swapped' % b.path, t['s'], b.path,
                            'the streamed text is tested for starting with the recorded content: when the recorded line has fewer '
                            'characters left than the streamed text (the substring is cut at the line end) the test passes although the '
                            'texts differ, and the original column is advanced past the end of the original line')
    r.check_floor()
    return r


def rule_collector_sibling(ctx):
    """the two map collectors fill sources / sourcesContent / names the same way"""
    f = ctx.facts()
    r = RuleResult('COLLECTOR-SIBLING', 'the map collectors (map() via get_map, and the cache-filling tee) store what a child announces in the '
                                        'same shape: each table (file names, contents, names) is touched under the same condition (content '
                                        'only when the child supplied one) and always at the announced index — otherwise the cached map and '
                                        'map() of the same source disagree on sources / sourcesContent')
    r.floor = 3
    cols = []
    for b in f.body_list:
        if b.promoted is not None or b.d['kind'] == 'Closure':
            continue
        inner = [m for m in group_of(f, b) if m.d['kind'] == 'Closure' and closure_kind(m)]
        if len({closure_kind(m) for m in inner}) == 3 and \
                any((t.get('callee') or {}).get('name') == 'encode' for m in inner for _, t in m.calls()):
            cols.append((b, inner))
    if len(cols) < 2:
        raise anchors.AnchorMissing('expected two map collectors (three callbacks + a mappings encoder), found %d' % len(cols))
    desc = {}
    for b, inner in cols:
        for m in inner:
            kind = closure_kind(m)
            if kind not in ('source', 'name'):
                continue
            # blocks under the Some edge of a test of an Option parameter (the content)
            some_blocks = set()
            for bi in range(len(m.blocks)):
                t = m.term(bi)
                if t['k'] != 'switch' or t['d']['k'] not in ('copy', 'move') or t['d']['p']['pr']:
                    continue
                dd = m.whole_defs(t['d']['p']['l'])
                if len(dd) == 1 and dd[0][1] == 'assign' and dd[0][2]['r']['k'] == 'discr':
                    e = m.expr_of_operand({'k': 'copy', 'p': dd[0][2]['r']['p']})
                    if any(x[0] == 'arg' and x[3] == m.key and 'Option<' in m.local_ty(x[1]) for x in walk(e)):
                        for v, tb in t['targets']:
                            if v == 1:
                                some_blocks |= {x for x in range(len(m.blocks)) if x == tb or tb in m.dom().get(x, set())}
            ups = m.d.get('upvars') or []
            for pt, t in m.calls():
                c = t.get('callee')
                if not c or not t['args']:
                    continue
                # which captured string table does this call take mutably?
                tables = set()
                for a in t['args']:
                    if a['k'] in ('copy', 'move'):
                        ty = m.local_ty(a['p']['l']) if not a['p']['pr'] else (a['p'].get('ty') or '')
                        if ty.startswith('&mut') and 'Vec<std::string::String>' in ty:
                            e = m.expr_of_operand(a)
                            for x in walk(e):
                                if x[0] == 'upvar' and len(x) > 2:
                                    tables.add(x[2])
                if not tables:
                    continue
                uses_index = any(any(x[0] == 'arg' and x[3] == m.key and x[1] == 2 for x in walk(m.expr_of_operand(a))) for a in t['args'])
                carries_value = any(any(x[0] == 'arg' and x[3] == m.key and x[1] >= 3 for x in walk(m.expr_of_operand(a))) for a in t['args'])
                for tb_ in tables:
                    d_ = desc.setdefault((kind, tb_), {}).setdefault(b.path, set())
                    d_.add(('under-some' if pt[0] in some_blocks else 'always'))
                    if carries_value and not uses_index:
                        d_.add('value stored without the announced index')
    for (kind, table), per in sorted(desc.items()):
        vals = list(per.values())
        ok = len(per) == len(cols) and all(v == vals[0] for v in vals)
        r.site('%s callback, table `%s`: same store shape in every collector %s' % (kind, table, sorted(vals[0])), cols[0][0].span(),
               'ok' if ok else 'violation')
        if not ok:
            r.violation('%s:%s' % (kind, table), cols[0][0].span(), cols[0][0].path,
                        'the collectors treat the `%s` table differently in their %s callback (%s): the cached map and map() of the same '
                        'source then differ in sources / sourcesContent (padding with "" where no content was supplied, or content stored '
                        'in the wrong slot)' % (table, kind, '; '.join('%s: %s' % (k.rsplit('::', 1)[-1], sorted(v)) for k, v in sorted(per.items()))))
    r.check_floor()
    return r


# ------------------------------------------------------------------------------------------------------------------------------
# NAME-SIBLING: the pieces into which a composite cuts one child chunk keep the child's name alike

_COND_CALLS = ('filter', 'then', 'then_some', 'take_if', 'xor', 'zip', 'take', 'filter_map')


def _cond_profile(f, e, depth=0):
    """the condition-introducing operations an Option-valued expression passes through: adaptor calls that can turn Some into None
    under a predicate, and choices between alternatives (phi)"""
    out = []
    seen = set()

    def go(x, d):
        if not isinstance(x, tuple) or not x or d > 60 or id(x) in seen:
            return
        seen.add(id(x))
        k = x[0]
        if k == 'call':
            nm = x[1].rsplit('::', 1)[-1]
            if nm in _COND_CALLS:
                out.append(nm)
            if x[2]:
                go(x[2][0], d + 1)          # the receiver chain only: what an adaptor's closure computes is not a condition on the value
        elif k == 'phi':
            alts = [a for a in x[1]]
            if len(alts) > 1:
                out.append('choice')
            for a in alts:
                go(a, d + 1)
        elif k in ('ref', 'deref', 'cast', 'un', 'discr'):
            go(x[1] if k != 'un' else x[2], d + 1)
        elif k in ('field', 'downcast', 'index', 'cindex', 'proj'):
            go(x[1], d + 1)
        elif k == 'upvar':
            go(x[1], d + 1)
        elif k == 'agg':
            for a in x[5]:
                go(a, d + 1)
        elif k == 'bin':
            go(x[2], d + 1)
            go(x[3], d + 1)
    go(e, 0)
    return tuple(sorted(out))


def rule_name_sibling(ctx):
    """the forwarded pieces of one child chunk translate the child's name index alike"""
    f = ctx.facts()
    r = RuleResult('NAME-SIBLING', 'a composite that cuts a child chunk into pieces and forwards each piece with the child\'s own original '
                                   'position keeps or drops the child\'s name for all pieces alike: the name index of every such piece is '
                                   'the translated child index, passed through the same conditions (an extra filter on one piece makes '
                                   'an empty insertion inside a named chunk change its attribution)')
    comps, ol = composites(f)
    n = 0
    for root, members, inner in comps:
        groups = {}
        for m in members:
            for pt, s in m.points():
                if not (s['k'] == 'assign' and s['r']['k'] == 'agg' and s['r'].get('path') == ol):
                    continue
                ops = dict(zip(s['r']['fields'], s['r']['ops']))
                ne = inline(f, resolve_closure_params(f, m.expr_of_operand(ops['name_index'])), depth=3)
                le = m.expr_of_operand(ops['original_line'])
                # forwarded piece: the name derives *directly* from the `name_index` field of a child's OriginalLocation
                direct = [x for x in walk(ne) if isinstance(x, tuple) and x and x[0] == 'field' and x[2] == 'name_index' and x[3] == ol]
                viavar = any(isinstance(x, tuple) and x and x[0] == 'phi' for x in [ne])
                if not direct or viavar:
                    continue
                # which child object: the root of the access path of that field read
                srcs = set()
                for x in direct:
                    for rt, fs in access_paths(x[1], through_calls=THROUGH):
                        srcs.add(rt[:3] if rt and rt[0] == 'arg' else (rt[0],))
                lines = [x for x in walk(le) if isinstance(x, tuple) and x and x[0] == 'field' and x[2] == 'original_line' and x[3] == ol]
                if not lines:
                    continue            # the position is not the child's own: not a forwarded piece
                prof = _cond_profile(f, ne)
                if 'choice' in prof:
                    continue            # the name is chosen among alternatives (a combinator deciding between two maps): not a plain piece
                groups.setdefault(root.path, []).append((m, s, prof))
        for key, lst in groups.items():
            if len(lst) < 2:
                for m, s, prof in lst:
                    r.site('%s: single forwarded piece (name conditions %s)' % (m.path, list(prof)), s['s'], 'ok')
                    n += 1
                continue
            profs = {}
            for m, s, prof in lst:
                profs.setdefault(prof, []).append((m, s))
            major = max(profs.items(), key=lambda kv: (len(kv[1]), -len(kv[0])))[0]
            for m, s, prof in lst:
                ok = prof == major or len(profs) == 1
                r.site('%s: forwarded piece translates the child\'s name under conditions %s' % (m.path, list(prof)), s['s'],
                       'ok' if ok else 'violation')
                n += 1
                if not ok:
                    r.violation('%s:piece-name' % root.path, s['s'], m.path,
                                'one forwarded piece of a child chunk passes the child\'s name index through %s, its sibling piece(s) '
                                'through %s: cutting a named chunk (even by an empty insertion) then changes which characters carry the '
                                'name, although every piece still reports the child\'s own original position' % (list(prof), list(major)))
    if not n:
        # conditional rule: armed only while the composite builds its forwarded pieces in a shape the recogniser knows (a helper that
        # receives the already translated index hides it).  Vacuity on today's tree is excluded by the seeded canaries of the thorough tier.
        r.info('no forwarded pieces with a directly translated child name recognised: not decided')
        r.site('(crate): no recognisable forwarded piece', '(crate)', 'ok')
    return r


# ------------------------------------------------------------------------------------------------------------------------------
# ACTIVE-CLEARED: a pending ("active") mapping is retired whether or not its text turned out to be empty

def _upvar_of(m, e):
    """name of the captured variable an expression / place denotes (through derefs and references), or None"""
    x = e
    while isinstance(x, tuple) and x and x[0] in ('deref', 'ref', 'cast'):
        x = x[1]
    if isinstance(x, tuple) and x and x[0] == 'upvar':
        return x[2]
    return None


def rule_active_cleared(ctx):
    f = ctx.facts()
    r = RuleResult('ACTIVE-CLEARED', 'a splitter that remembers an "active" mapping and delivers its text when the next segment arrives '
                                     'retires that mapping on both outcomes of the "is the text empty" test: the state it tests before '
                                     'delivering is reset on every path that leaves the delivery region (a zero-width segment delivers no '
                                     'text, but must not stay active past the segment that closes it)')
    ol = anchors.adt_by_name(f, 'OriginalLocation')['path']
    n = 0
    for m in f.body_list:
        if m.promoted is not None or m.d['kind'] != 'Closure':
            continue
        ups = {u['n']: u for u in (m.d.get('upvars') or [])}
        state_ty = {k for k, u in ups.items() if u.get('mut') and (u['ty'] == 'bool' or (u['ty'].startswith('std::option::Option<') and
                                                                                       'OriginalLocation' in u['ty']))}
        if not state_ty:
            continue
        dom = m.dom()
        for pt, t, kind, ops in callback_calls(m):
            if kind != 'chunk' or len(ops) < 2:
                continue
            # the delivered mapping's `original` comes from a captured Option<OriginalLocation> (the remembered mapping)
            me = ops[1]
            remembered = {x[2] for x in walk(me) if isinstance(x, tuple) and x and x[0] == 'upvar' and x[2] in ups
                          and 'OriginalLocation' in ups[x[2]]['ty'] and ups[x[2]]['ty'].startswith('std::option::Option<')}
            if not remembered:
                continue
            E = pt[0]
            # switches that dominate the delivery
            doms = [d for d in dom.get(E, set()) if m.term(d)['k'] == 'switch']
            states, empt = set(), []
            for d in doms:
                de = m.expr_of_operand(m.term(d)['d'])
                for x in walk(de):
                    if isinstance(x, tuple) and x and x[0] == 'upvar' and x[2] in state_ty:
                        states.add((x[2], d))
                if any(isinstance(x, tuple) and x and x[0] == 'call' and x[1].rsplit('::', 1)[-1] == 'is_empty' for x in walk(de)):
                    empt.append(d)
            if not states or not empt:
                continue
            D = max(empt, key=lambda d_: len(dom.get(d_, ())))          # the innermost emptiness test above the delivery
            for X, tst in sorted(states):
                if tst in dom.get(D, set()) or tst == D:
                    pass
                else:
                    continue
                # region: blocks dominated by the successor of the state test that leads to the delivery
                tt = m.term(tst)
                succs = [tb for _, tb in tt['targets']] + [tt['otherwise']]
                entry = [sb for sb in succs if sb == E or sb in dom.get(E, set())]
                if len(entry) != 1:
                    continue
                region = {bb for bb in range(len(m.blocks)) if bb == entry[0] or entry[0] in dom.get(bb, set())}

                def clears(bb):
                    for s in m.stmts(bb):
                        if s['k'] == 'assign' and _upvar_of(m, m.expr_of_place(s['p'])) == X:
                            rv = s['r']
                            if rv['k'] == 'use' and rv['o'].get('k') == 'const' and rv['o'].get('bool') is False:
                                return True
                            if rv['k'] == 'agg' and rv.get('variant') == 'None':
                                return True
                    tm = m.term(bb)
                    if tm['k'] == 'call' and (tm.get('callee') or {}).get('name') == 'take' and tm['args'] and \
                            _upvar_of(m, m.expr_of_operand(tm['args'][0])) == X:
                        return True
                    return False
                bad = None
                for sb in m.succs(D):
                    if m.is_cleanup(sb):
                        continue
                    seen, work = set(), [sb]
                    while work and bad is None:
                        bb = work.pop()
                        if bb in seen:
                            continue
                        seen.add(bb)
                        if bb not in region:
                            bad = (sb, bb)
                            break
                        if clears(bb):
                            continue
                        tm = m.term(bb)
                        if tm['k'] == 'return':
                            bad = (sb, bb)
                            break
                        work.extend(x for x in m.succs(bb) if not m.is_cleanup(x))
                    if bad:
                        break
                n += 1
                r.site('%s: active state `%s` retired on both outcomes of the emptiness test' % (m.path, X), t['s'], 'ok' if not bad else 'violation')
                if bad:
                    r.violation('%s:%s' % (m.path, X), t['s'], m.path,
                                'the remembered mapping is delivered only when its text is not empty, and on the other outcome the state '
                                '`%s` that marks it active is not reset before the delivery region is left: a zero-width segment (duplicate '
                                'column, end of line) stays active, and the text after the unmapped segment that closes it is attributed '
                                'to it' % X)
    if not n:
        # conditional rule (see NAME-SIBLING): a splitter that keeps its active-mapping state in another shape (a struct with methods)
        # is not decided; the seeded canaries of the thorough tier exclude vacuity on today's tree
        r.info('no splitter with a recognisable active-mapping state (captured bool / Option tested before the delivery): not decided')
        r.site('(crate): no recognisable active-mapping state', '(crate)', 'ok')
    return r
