"""JSON-NAMES, JSON-FLOW (C15): the writer's and the reader's key tables agree and every raw field flows to
its namesake, so every field survives a to_json / from_json round trip *by name*.  Escaping, parser
totality and value equality are simd-json/serde's behaviour and are NOT decided."""
from ..core import RuleResult
from ..ir import walk, access_paths
from .. import anchors


def _serialize_keys(f, adt):
    """key string -> field of `adt` whose reference is passed to serialize_field"""
    bodies = [b for b in f.body_list if b.d.get('impl_adt') == adt and b.name == 'serialize' and b.promoted is None
              and b.d['kind'] != 'Closure']
    if len(bodies) != 1:
        raise anchors.AnchorMissing('Serialize impl of %s: %d bodies' % (adt, len(bodies)))
    b = bodies[0]
    keys, skips = {}, set()
    for pt, t in b.calls():
        c = t.get('callee')
        if not c:
            continue
        if c['name'] == 'serialize_field' and len(t['args']) == 3 and 'str' in t['args'][1]:
            k = t['args'][1]['str']
            fld = None
            for root, fs in access_paths(b.expr_of_operand(t['args'][2]), through_calls={'deref'}):
                if fs:
                    fld = fs[-1]
            keys[k] = (fld, t['s'])
        elif c['name'] == 'skip_field' and len(t['args']) == 2 and 'str' in t['args'][1]:
            skips.add(t['args'][1]['str'])
    return b, keys, skips


def rule_json_names(ctx):
    f = ctx.facts()
    r = RuleResult('JSON-NAMES', 'the key names SourceMap\'s serializer writes are exactly the key names the raw document reader '
                                 'accepts (plus the constant "version"), each paired with the namesake field')
    r.floor = 12
    sm = anchors.adt_by_name(f, 'SourceMap')
    ser, keys, skips = _serialize_keys(f, sm['path'])
    # reader: the struct TryFrom consumes; its derived Deserialize has a FIELDS constant
    tf = [b for b in f.body_list if b.name == 'try_from' and b.d.get('impl_adt') == sm['path'] and b.promoted is None]
    if len(tf) != 1:
        raise anchors.AnchorMissing('TryFrom<raw> for SourceMap: %d' % len(tf))
    raw_adt = None
    for i in range(1, tf[0].arg_count + 1):
        a = tf[0].locals[i].get('adt')
        if a in f.adts:
            raw_adt = a
    if raw_adt is None:
        raise anchors.AnchorMissing('raw document type')
    fields_const = [c for p, c in f.consts.items() if p.endswith('::FIELDS') and f.adts[raw_adt]['name'] in p and 'strs' in c]
    if len(fields_const) != 1:
        raise anchors.AnchorMissing('derived Deserialize FIELDS of %s: %d' % (raw_adt, len(fields_const)))
    rkeys = fields_const[0]['strs']
    rfields = [fl['name'] for fl in anchors.fields(f.adts[raw_adt])]
    r.assumptions.append('serde-derive emits FIELDS in declaration order and binds FIELDS[i] to the i-th struct field')
    if len(rkeys) != len(rfields):
        r.violation('reader-arity', fields_const[0]['span'], raw_adt, 'FIELDS has %d keys for %d fields' % (len(rkeys), len(rfields)))
    reader = dict(zip(rkeys, rfields))
    for k, (fld, site) in sorted(keys.items()):
        if fld == 'version' or k == 'version':
            r.site('writer key "version" (constant, not read back)', site, 'ok')
            continue
        ok = k in reader
        r.site('writer key %r (field %s) is accepted by the reader (field %s)' % (k, fld, reader.get(k)), site, 'ok' if ok else 'violation')
        if not ok:
            r.violation('writer-key:%s' % fld, site, ser.path,
                        'serializer writes key %r which the reader does not know (%s): the field silently reads back as empty/None' % (k, sorted(reader)))
    for k, g in sorted(reader.items()):
        ok = k in keys
        r.site('reader key %r (raw field %s) is written by the serializer' % (k, g), fields_const[0]['span'], 'ok' if ok else 'violation')
        if not ok:
            r.violation('reader-key:%s' % g, fields_const[0]['span'], raw_adt,
                        'reader expects key %r which the serializer never writes' % k)
    # skipped keys must be keys that are also serialised on the other branch
    for k in sorted(skips):
        ok = k in keys
        r.site('skip_field(%r) names a serialised key' % k, ser.span(), 'ok' if ok else 'violation')
        if not ok:
            r.violation('skip-key:%s' % k, ser.span(), ser.path, 'skip_field names a key that is never serialised')
    r._chain = (keys, reader, raw_adt, tf[0])
    r.check_floor()
    return r


def rule_json_flow(ctx):
    f = ctx.facts()
    r = RuleResult('JSON-FLOW', 'round trip by name: SourceMap.f --serializer--> key --reader--> raw.g --TryFrom--> SourceMap.f\' with '
                                'f\' == f for every field (several fields share a type, so a swap would compile)')
    r.floor = 7
    names = rule_json_names(ctx)
    keys, reader, raw_adt, tf = names._chain
    sm = anchors.adt_by_name(f, 'SourceMap')
    # TryFrom: aggregate of SourceMap: field -> raw fields it depends on
    aggs = [(pt, s) for pt, s in tf.points() if s['k'] == 'assign' and s['r']['k'] == 'agg' and s['r'].get('path') == sm['path']]
    if len(aggs) != 1:
        r.violation('tryfrom-aggregate', tf.span(), tf.path, 'expected one SourceMap aggregate in TryFrom, found %d' % len(aggs),
                    reason='unrecognised-idiom')
        return r
    pt, s = aggs[0]
    flow = {}
    for n, o in zip(s['r']['fields'], s['r']['ops']):
        e = tf.expr_of_operand(o)
        deps = set()
        for x in walk(e):
            if x[0] == 'field' and x[3] == raw_adt:
                deps.add(x[2])
        flow[n] = (deps, o)
    back = {g: k for k, g in reader.items()}
    for n, (deps, o) in sorted(flow.items()):
        if n == 'version' or (not deps and o['k'] == 'const'):
            ok = o['k'] == 'const' and o.get('int') == 3
            r.site('SourceMap.%s <- constant %s' % (n, o.get('int')), s['s'], 'ok' if ok else 'violation')
            if not ok:
                r.violation('flow:%s' % n, s['s'], tf.path, 'version must be the constant 3')
            continue
        # which writer key carries field n, which raw field reads that key
        wkeys = [k for k, (fld, _) in keys.items() if fld == n]
        want = {reader[k] for k in wkeys if k in reader}
        ok = bool(want) and deps == want
        r.site('SourceMap.%s -> key %s -> raw.%s -> SourceMap.%s (reads raw.%s)' % (n, wkeys, sorted(want), n, sorted(deps)), s['s'],
               'ok' if ok else 'violation')
        if not ok:
            r.violation('flow:%s' % n, s['s'], tf.path,
                        'after a JSON round trip field `%s` is rebuilt from raw field(s) %s, but its own key %s is read into raw field(s) %s'
                        % (n, sorted(deps), wkeys, sorted(want)))
    r.check_floor()
    return r



def _universal_emptiness(f, pb):
    """None when the predicate `fn(&list) -> bool` is recognisably "every entry is empty" (`iter().all(is_empty)`,
    `!iter().any(!is_empty)`, optionally preceded by an early `true` for the empty list); otherwise a short reason"""
    from .ropeinv import nz

    def elem_empty(cl_expr, negated=False):
        """the closure / fn item handed to all / any tests emptiness of its argument"""
        if cl_expr and cl_expr[0] == 'fn':
            return cl_expr[1].rsplit('::', 1)[-1] == 'is_empty' and not negated
        if not (cl_expr and cl_expr[0] == 'agg' and cl_expr[1] == 'closure'):
            return False
        cands = [c for c in f.closures_of(pb) if c.path.endswith(cl_expr[2])]
        if len(cands) != 1:
            return False
        e = nz(cands[0].expr_of_local(0))
        neg = False
        while e and e[0] == 'un' and e[1] == 'Not':
            neg, e = not neg, e[2]
        if e and e[0] == 'call' and e[1] == 'is_empty' and e[2] and e[2][0][0] == 'arg':
            return neg == negated
        if e and e[0] == 'bin' and e[1] in ('Eq', 'Ne'):
            for a_, b_ in ((e[2], e[3]), (e[3], e[2])):
                if a_ and a_[0] == 'call' and a_[1] == 'len' and b_ and b_[0] == 'const' and b_[1] == 0:
                    return ((e[1] == 'Ne') != neg) == negated
        return False

    def over_whole_list(it):
        return it and it[0] == 'call' and it[1] in ('iter', 'into_iter') and it[2] and it[2][0] == ('arg', 1)

    def universal(e):
        if e and e[0] == 'call' and e[1] == 'all' and len(e[2]) == 2 and over_whole_list(e[2][0]):
            return elem_empty(e[2][1])
        if e and e[0] == 'un' and e[1] == 'Not' and e[2] and e[2][0] == 'call' and e[2][1] == 'any' and len(e[2][2]) == 2 \
                and over_whole_list(e[2][2][0]):
            return elem_empty(e[2][2][1], negated=True)
        if e and e[0] == 'call' and e[1] == 'is_empty' and e[2] and e[2][0] == ('arg', 1):
            return True                 # the empty list: nothing to lose
        return False
    R = nz(pb.expr_of_local(0))
    alts = list(R[1]) if R and R[0] == 'phi' else [R]
    seen_quant = False
    for a in alts:
        if a == ('const', True):
            # an early `true`: only for the empty list
            empties = [t for _, t in pb.calls() if (t.get('callee') or {}).get('name') in ('is_empty',)
                       and nz(pb.expr_of_operand(t['args'][0])) == ('arg', 1)]
            if not empties:
                return 'returns true on a path that does not look at the entries'
            continue
        if a == ('const', False):
            continue
        if universal(a):
            seen_quant = seen_quant or a[1] != 'is_empty'
            continue
        if a and a[0] == 'call' and a[1] == 'any':
            return 'it is an existential test (`any`), true as soon as one entry is empty'
        return 'unrecognised form of the predicate (neither `all(is_empty)` nor `!any(!is_empty)` over the whole list)'
    if not seen_quant:
        return 'no test that ranges over every entry'
    return None


def rule_json_skip(ctx):
    f = ctx.facts()
    r = RuleResult('JSON-SKIP', 'an optional field is omitted from the document only when it is None: the skip predicate of every Option '
                                'field of SourceMap is Option::is_none (a present-but-empty value must survive the round trip)')
    r.floor = 3
    sm = anchors.adt_by_name(f, 'SourceMap')
    ser, keys, skips = _serialize_keys(f, sm['path'])
    opt_fields = {fl['name'] for fl in anchors.fields(sm) if fl['ty'].startswith('std::option::Option<')}
    # predicate calls: any call whose first argument is a reference to a field of self and whose result feeds a switch
    for pt, t in ser.calls():
        c = t.get('callee')
        if not c or not t['args'] or ser.local_ty(t['dest']['l']) != 'bool':
            continue
        fld = None
        for root, fs in access_paths(ser.expr_of_operand(t['args'][0]), through_calls={'deref'}):
            if fs and root[0] == 'arg':
                fld = fs[-1]
        if fld is None:
            continue
        if fld in opt_fields:
            ok = c['name'] == 'is_none' and 'option::Option' in c.get('path', '')
            r.site('skip predicate of optional field %s is `%s`' % (fld, c['path']), t['s'], 'ok' if ok else 'violation')
            if not ok:
                r.violation('skip:%s' % fld, t['s'], ser.path,
                            'optional field `%s` is skipped by `%s`, not by Option::is_none: a present value for which the predicate holds '
                            '(e.g. Some("")) is dropped by to_json and reads back as None' % (fld, c['path']))
        else:
            pb = f.body(c.get('resolved') or c['path'])
            fty = [fl['ty'] for fl in anchors.fields(sm) if fl['name'] == fld]
            if pb is None or not fty or not ('[' in fty[0] or 'Vec<' in fty[0]):
                r.site('skip predicate of non-optional field %s is `%s` (not decided)' % (fld, c['path']), t['s'], 'ok')
                continue
            verdict = _universal_emptiness(f, pb)
            ok = verdict is None
            r.site('skip predicate `%s` of list field %s holds only when every entry is empty' % (c['path'], fld), t['s'],
                   'ok' if ok else 'violation')
            if not ok:
                r.violation('skip-all:%s' % fld, t['s'], pb.path,
                            'list field `%s` is left out of the document when `%s` holds, and that predicate is not "every entry is '
                            'empty" (%s): a list with one empty and one non-empty entry is dropped by to_json and reads back without '
                            'its content' % (fld, c['path'], verdict), reason='unrecognised-idiom' if 'unrecognised' in verdict else 'quantifier')
    r.check_floor()
    return r


def rule_json_pure(ctx):
    from .panics import local_cone
    f = ctx.facts()
    r = RuleResult('JSON-PURE', 'from_json / from_slice / from_reader are functions of their input alone: their crate-local cones touch no '
                                'static or thread-local state (the result of parsing a document cannot depend on earlier calls)')
    r.floor = 3
    sm = anchors.adt_by_name(f, 'SourceMap')
    entries = [b for b in f.impl_bodies(sm['path']) if b.d.get('pub') and b.name in ('from_json', 'from_slice', 'from_reader')]
    if len(entries) != 3:
        raise anchors.AnchorMissing('SourceMap::from_json/from_slice/from_reader: %d' % len(entries))
    for e in entries:
        bad = []
        for root, members in local_cone(f, e).items():
            for m in members:
                for pt, s in m.points():
                    if s['k'] == 'assign' and s['r']['k'] == 'tls':
                        bad.append((s['s'], 'thread-local `%s`' % s['r']['path']))
                    if s['k'] == 'call' and s.get('callee') and ('thread::local' in s['callee'].get('path', '') or
                                                                 'LocalKey' in s['callee'].get('path', '')):
                        bad.append((s['s'], 'thread-local access `%s`' % s['callee']['path']))
                    for o in ([s['r'].get('o')] if s['k'] == 'assign' else []) + (s.get('args') or [] if s['k'] == 'call' else []):
                        if isinstance(o, dict) and o.get('k') == 'const' and o.get('ptr') and 'item' in o and 'static' in o.get('item', ''):
                            bad.append((s['s'], 'static item'))
        ok = not bad
        r.site('%s: cone is free of static / thread-local state' % e.path, e.span(), 'ok' if ok else 'violation')
        for site, why in bad:
            r.violation('%s:%s' % (e.path, why.split('`')[1] if '`' in why else why), site, e.path,
                        'JSON entry point keeps state across calls (%s): a document can parse differently depending on what was parsed '
                        'before on this thread' % why)
    r.check_floor()
    return r


def rule_json_sibling(ctx):
    f = ctx.facts()
    r = RuleResult('JSON-SIBLING', 'raw document fields of the same shape are converted the same way: sources, sourcesContent and names '
                                   '(each Option<Vec<Option<String>>>) go through one and the same sequence of conversions, so null entries read '
                                   'as empty strings in all three (dropping them in one shifts its indices)')
    r.floor = 3
    names = rule_json_names(ctx)
    keys, reader, raw_adt, tf = names._chain
    sm = anchors.adt_by_name(f, 'SourceMap')
    aggs = [(pt, s) for pt, s in tf.points() if s['k'] == 'assign' and s['r']['k'] == 'agg' and s['r'].get('path') == sm['path']]
    if len(aggs) != 1:
        r.violation('tryfrom-aggregate', tf.span(), tf.path, 'expected one SourceMap aggregate in TryFrom', reason='unrecognised-idiom')
        return r
    from ..ir import inline
    raw_ty = {fl['name']: fl['ty'] for fl in anchors.fields(f.adts[raw_adt])}
    groups = {}
    pt, s = aggs[0]
    for n, o in zip(s['r']['fields'], s['r']['ops']):
        e = inline(f, tf.expr_of_operand(o), depth=2)
        deps = [x[2] for x in walk(e) if x[0] == 'field' and x[3] == raw_adt]
        if len(set(deps)) != 1:
            continue
        # conversion skeleton: callee names along the value chain, plus function items passed as arguments
        chain = []
        for x in walk(e):
            if x[0] == 'call':
                chain.append(x[1].rsplit('::', 1)[-1])
            elif x[0] == 'fn':
                chain.append('fn:' + x[1].rsplit('::', 1)[-1])
            elif x[0] == 'agg' and x[1] == 'closure':
                cb = f.body(x[2])
                if cb is not None:
                    chain.append('closure:' + ','.join(sorted(t['callee']['name'] for _, t in cb.calls() if t.get('callee'))))
        groups.setdefault(raw_ty[deps[0]], []).append((n, tuple(chain)))
        # a list of strings of the map must be read from a raw field whose entries may be null ("null entries ... read as empty
        # strings" is part of the property statement): the raw element type is an Option
        sm_ty = {fl['name']: fl['ty'] for fl in anchors.fields(sm)}.get(n, '')
        if 'String' in sm_ty and ('[' in sm_ty or 'Vec<' in sm_ty):
            rt = raw_ty[deps[0]]
            ok = 'Vec<std::option::Option<' in rt.replace(' ', '')
            r.site('SourceMap.%s is read from raw `%s: %s` whose entries may be null' % (n, deps[0], rt), s['s'], 'ok' if ok else 'violation')
            if not ok:
                r.violation('nullable:%s' % n, s['s'], tf.path,
                            'the raw field `%s: %s` that feeds SourceMap.%s has no nullable entries: a document with a null entry in '
                            'this array is rejected instead of reading the entry as an empty string' % (deps[0], rt, n))
    for ty, lst in sorted(groups.items()):
        if len(lst) < 2:
            continue
        ref = max(set(c for _, c in lst), key=lambda c: sum(1 for _, c2 in lst if c2 == c))
        for n, chain in lst:
            ok = chain == ref
            r.site('SourceMap.%s (raw type %s) converted by %s' % (n, ty, list(chain)[:8]), s['s'], 'ok' if ok else 'violation')
            if not ok:
                r.violation('convert:%s' % n, s['s'], tf.path,
                            'field `%s` is converted differently (%s) from its siblings of the same raw type (%s): e.g. null entries are '
                            'dropped instead of read as empty strings, shifting later indices' % (n, list(chain)[:8], list(ref)[:8]))
    r.check_floor()
    return r


def rule_json_entries_alike(ctx):
    """the three parsing entry points differ only in how the document reaches the JSON library"""
    from .panics import loops
    f = ctx.facts()
    r = RuleResult('JSON-ENTRIES', 'from_json, from_slice and from_reader hand the whole document to the JSON library in one call each and '
                                   'share the conversion into SourceMap: none of them reads, splits or loops over the input itself, so the '
                                   'three agree on every document')
    r.floor = 3
    names = rule_json_names(ctx)
    keys, reader, raw_adt, tf = names._chain
    sm = anchors.adt_by_name(f, 'SourceMap')
    entries = [b for b in f.body_list if b.promoted is None and b.d['kind'] != 'Closure' and b.d.get('impl_adt') in (raw_adt, sm['path'])
               and b.name in ('from_json', 'from_slice', 'from_reader') and not b.d.get('impl_trait')]
    if len(entries) < 3:
        raise anchors.AnchorMissing('from_json / from_slice / from_reader: %d' % len(entries))
    for b in entries:
        ls = loops(b)
        reads = [t for pt, t in b.calls() if (t.get('callee') or {}).get('name') in ('read', 'read_exact', 'read_to_end', 'read_to_string',
                                                                                  'split_at', 'split_first', 'strip_prefix')]
        ok = not ls and not reads
        r.site('%s: no loop, no reading / splitting of its own' % b.path, b.span(), 'ok' if ok else 'violation')
        if not ok:
            r.violation('%s:own-input-handling' % b.path, b.span(), b.path,
                        'this entry point handles the input itself (%s) instead of handing it to the JSON library whole: it can '
                        'disagree with its siblings on documents they accept (a short read taken for the end of the input, a prefix '
                        'stripped in one of them only)' % ('a loop' if ls else 'a call of `%s`' % reads[0]['callee']['name']))
    r.check_floor()
    return r
