"""Property -> rules.  A property is only listed with the rules that exist (DESIGN §8)."""
import importlib

# (module, function[, configs]) ; configs: which build configurations the rule is evaluated on in the thorough tier
PROPERTY_RULES = {}


def reg(prop, module, fn, thorough_configs=('dev',)):
    PROPERTY_RULES.setdefault(prop, []).append((module, fn, thorough_configs))


def load(module, fn):
    m = importlib.import_module('rsv.rules.' + module)
    return getattr(m, fn)


# ---- C05
for fn in ('rule_reset', 'rule_fresh', 'rule_ordered_read', 'rule_sortkey'):
    reg('C05', 'replace_cache', fn)
reg('C05', 'witnesses', 'rule_w_mut')
