"""DELEG, IOERR (C07, C13, C10): agreement of the content views per source type and forwarding by wrappers."""
from ..core import RuleResult
from ..ir import access_paths, walk, strip
from .. import anchors
from .eqhash import cone

BYTE_VIEWS = ('buffer', 'size', 'to_writer')
TEXT_VIEWS = ('source', 'rope')
ALL_VIEWS = ('source', 'rope', 'buffer', 'size', 'map', 'to_writer')


def source_impls(f):
    """impl Source for X: {self_ty string: {method name: body}}"""
    tr = anchors.trait_path(f, 'Source')
    out = {}
    for b in f.body_list:
        if b.promoted is None and b.d['kind'] != 'Closure' and b.d.get('impl_trait') == tr:
            out.setdefault(b.d.get('impl_self'), {})[b.name] = b
    return tr, out


def group_members(f, body):
    root = body.d.get('root') or body.path
    return [m for m in f.body_list if m.promoted is None and (m.d.get('root') or m.path) == root]


def view_basis(f, tr, body, adt):
    """(fields read in own cone, self-views called, child-views called [SAME when equal to own name])"""
    fields, selfv, childv = set(), set(), set()
    members = [m for ms in cone(f, body, adt).values() for m in ms] if adt in f.adts else group_members(f, body)
    for m in members:
        if adt in f.adts:
            cache = {(a, fl) for a, fl, _ in anchors.cache_fields(f)}
            for pt, role, pl, node in m.places():
                for x in pl['pr']:
                    if isinstance(x, dict) and x.get('o') == adt and 'n' in x and (adt, x['n']) not in cache:
                        fields.add(x['n'])
        for pt, t in m.calls():
            c = t.get('callee')
            if not c or c.get('trait') != tr and c.get('impl_trait') != tr:
                continue
            if c['name'] not in ALL_VIEWS:
                continue
            recv = m.expr_of_operand(t['args'][0])
            is_self = False
            for root, fs in access_paths(recv, through_calls={'deref', 'borrow'}):
                if root[0] == 'arg' and root[1] == 1 and not fs and root[3] == body.key:
                    is_self = True
            if is_self and m is body:
                selfv.add(c['name'])
            else:
                childv.add('SAME' if c['name'] == body.name else c['name'])
    return (frozenset(fields), frozenset(selfv), frozenset(childv))


def rule_deleg(ctx):
    f = ctx.facts()
    r = RuleResult('DELEG', 'per source type the byte views (buffer, size, to_writer) are computed from the same basis and so are the '
                            'text views (source, rope); wrappers (Box, Cached, single-child Concat, empty Replace.map) forward each view '
                            'to the same view of the wrapped source with their own arguments')
    r.floor = 30
    tr, impls = source_impls(f)
    if len(impls) < 9:
        raise anchors.AnchorMissing('expected >= 9 Source impls, found %d' % len(impls))
    for self_ty, methods in sorted(impls.items()):
        adt = next(iter(methods.values())).d.get('impl_adt')
        bases = {}
        for v in ALL_VIEWS:
            if v not in methods:
                r.violation('%s:%s:missing' % (self_ty, v), '(crate)', self_ty, 'Source impl lacks view %s' % v, reason='anchor')
                continue
            bases[v] = view_basis(f, tr, methods[v], adt)
        for grp, views in (('byte', BYTE_VIEWS), ('text', TEXT_VIEWS)):
            have = [v for v in views if v in bases]
            if not have:
                continue
            ref = bases[have[0]]
            for v in have:
                ok = bases[v] == ref
                b = methods[v]
                r.site('%s::%s basis fields=%s self=%s children=%s' % (self_ty, v, sorted(bases[v][0]), sorted(bases[v][1]),
                                                                     sorted(bases[v][2])), b.span(), 'ok' if ok else 'violation',
                       group=grp)
                if not ok:
                    r.violation('%s:%s' % (self_ty, v), b.span(), b.path,
                                '%s view `%s` is computed from a different basis (fields %s, own views %s, child views %s) than `%s` '
                                '(fields %s, own views %s, child views %s): the views can disagree (e.g. for a binary leaf)' % (
                                    grp, v, sorted(bases[v][0]), sorted(bases[v][1]), sorted(bases[v][2]), have[0],
                                    sorted(ref[0]), sorted(ref[1]), sorted(ref[2])))
    # D3: pure forwarders
    st = anchors.trait_path(f, 'StreamChunks')
    C = anchors.cached_source(f)
    R = anchors.replace_source(f)
    cc = anchors.adt_by_name(f, 'ConcatSource')
    forwards = []
    for self_ty, methods in impls.items():
        adt = next(iter(methods.values())).d.get('impl_adt')
        if adt not in f.adts:  # BoxSource = Arc<dyn Source>
            forwards += [(self_ty, methods[v], v, 'box') for v in ALL_VIEWS if v in methods]
        elif adt == C['adt']:
            forwards += [(self_ty, methods[v], v, 'cached') for v in ('source', 'rope', 'buffer', 'size', 'to_writer') if v in methods]
            forwards += [(self_ty, methods['map'], 'map', 'cached-map')]
        elif adt == cc['path']:
            forwards += [(self_ty, methods[v], v, 'concat-single') for v in ('source', 'rope', 'buffer') if v in methods]
        elif adt == R['adt']:
            forwards += [(self_ty, methods['map'], 'map', 'replace-empty-map')]
    # stream_chunks of Box and single-child Concat
    for b in f.body_list:
        if b.promoted is None and b.d['kind'] != 'Closure' and b.d.get('impl_trait') == st and b.name == 'stream_chunks':
            if b.d.get('impl_adt') not in f.adts:
                forwards.append((b.d.get('impl_self'), b, 'stream_chunks', 'box'))
            elif b.d.get('impl_adt') == cc['path']:
                forwards.append((b.d.get('impl_self'), b, 'stream_chunks', 'concat-single'))
    for self_ty, b, v, kind in forwards:
        ok, why = _forwards(f, b, v, kind, (tr, st))
        r.site('%s::%s forwards to the wrapped source\'s %s (%s)' % (self_ty, v, v, kind), b.span(), 'ok' if ok else 'violation')
        if not ok:
            r.violation('%s:%s:forward' % (self_ty, v), b.span(), b.path,
                        'wrapper view `%s` does not forward to the same view of the wrapped source with its own arguments: %s' % (v, why))
    r.check_floor()
    return r


def _forwards(f, b, v, kind, traits):
    """b contains a call of trait method `v` on a non-self receiver whose remaining args are b's own parameters in order and
    whose result is returned; for pure wrappers that is the only Source call"""
    cands = []
    n_trait_calls = 0
    all_calls = [(m, pt, t) for m in group_members(f, b) for pt, t in m.calls()]
    for m, pt, t in all_calls:
        c = t.get('callee')
        if not c or (c.get('trait') not in traits and c.get('impl_trait') not in traits):
            continue
        if c['name'] in ALL_VIEWS or c['name'] == 'stream_chunks':
            n_trait_calls += 1
        if c['name'] != v:
            continue
        # args[1:] must be own params 2.. in order
        ok_args = True
        for i, a in enumerate(t['args'][1:]):
            roots = [(root, fs) for root, fs in access_paths(m.expr_of_operand(a), through_calls={'deref', 'borrow'})]
            if not roots or not all(root[0] == 'arg' and root[3] == b.key and root[1] == i + 2 and not fs for root, fs in roots):
                ok_args = False
        # receiver must not be self itself
        recv = m.expr_of_operand(t['args'][0])
        self_recv = any(root[0] == 'arg' and root[3] == b.key and root[1] == 1 and not fs
                        for root, fs in access_paths(recv, through_calls={'deref', 'borrow'}))
        if kind == 'box':
            # receiver is the Arc's pointee: as_ref()/deref of self
            self_recv = False
        # result returned?
        returned = m is b and t['dest']['l'] == 0 and not t['dest']['pr']
        if not returned:
            from ..ir import inline
            e0 = inline(f, b.expr_of_local(0), depth=2)
            for x in walk(e0):
                if x[0] == 'call' and x[3] == pt and x[1] == t['callee']['path']:
                    returned = True
            if not returned and m is not b:
                # the call sits in a closure of this function (e.g. the miss path handed to unwrap_or_else): its value must be
                # (part of) what that closure returns
                for x in walk(inline(f, m.expr_of_local(0), depth=2)):
                    if x[0] == 'call' and x[3] == pt and x[1] == t['callee']['path']:
                        returned = True
        cands.append((ok_args, not self_recv, returned, t, m))
    good = [c for c in cands if all(c[:3])]
    if not good:
        if not cands:
            return False, 'no call of `%s` on the wrapped source' % v
        return False, 'call of `%s` exists but args-in-order=%s, receiver-is-wrapped=%s, result-returned=%s' % (
            (v,) + tuple(cands[0][:3]))
    if kind in ('box', 'cached') and n_trait_calls != 1:
        return False, 'a pure wrapper must make exactly one Source call, found %d' % n_trait_calls
    if kind == 'concat-single':
        t = good[0][3]
        recv = (good[0][4] if len(good[0]) > 4 else b).expr_of_operand(t['args'][0])
        if not any((x[0] in ('index', 'cindex')) or (x[0] == 'call' and x[1].rsplit('::', 1)[-1] in ('index', 'get', 'first'))
                   for x in walk(recv)):
            return False, 'fast path does not forward to an element of the child vector'
    return True, None


def rule_ioerr(ctx):
    f = ctx.facts()
    r = RuleResult('IOERR', 'to_writer never drops, unwraps or ignores a writer error: every io::Result produced inside a to_writer '
                            'body is the return value or is propagated with `?`')
    r.floor = 6
    bodies = [b for b in f.body_list if b.promoted is None and b.name == 'to_writer' and b.d['kind'] != 'Closure']
    for b in bodies:
        for m in group_members(f, b):
            for pt, t in m.calls():
                c = t.get('callee')
                if not c:
                    continue
                dty = m.local_ty(t['dest']['l'])
                if not dty.startswith('std::result::Result<') or t['dest']['pr']:
                    continue
                if c['name'] in ('from_residual', 'from_output'):
                    continue
                L = t['dest']['l']
                consumers = []
                if L == 0:
                    consumers.append('return')
                for pt2, role, pl, node in m.places():
                    if pl['l'] != L or pt2 == pt or role == 'write':
                        continue
                    if node['k'] == 'call':
                        consumers.append('call:' + (node['callee']['name'] if node.get('callee') else '?'))
                    elif node['k'] == 'assign' and node['p']['l'] == 0 and not node['p']['pr'] and not pl['pr']:
                        consumers.append('return')
                    elif node['k'] == 'drop':
                        consumers.append('drop')
                    elif role == 'discr' or pl['pr']:
                        consumers.append('match')
                    else:
                        consumers.append('copy')
                real = [x for x in consumers if x != 'drop']
                ok = bool(real) and all(x in ('return', 'call:branch') for x in real)
                if not ok and real and all(x in ('return', 'call:branch', 'call:map_err', 'call:map', 'call:and_then') for x in real):
                    # error-preserving adaptors: the adapted Result must itself be returned / propagated
                    def adapted_ok(loc, depth=0):
                        outs = []
                        for pt3, t3 in m.calls():
                            c3 = t3.get('callee')
                            if c3 and c3['name'] in ('map_err', 'map', 'and_then') and t3['args'] and t3['args'][0]['k'] in ('move', 'copy') \
                                    and t3['args'][0]['p']['l'] == loc and not t3['args'][0]['p']['pr']:
                                outs.append(t3['dest']['l'])
                        if not outs:
                            return False
                        for d in outs:
                            if d == 0:
                                continue
                            uses = []
                            for pt4, role4, pl4, node4 in m.places():
                                if pl4['l'] != d or role4 == 'write':
                                    continue
                                if node4['k'] == 'call':
                                    uses.append('call:' + (node4['callee']['name'] if node4.get('callee') else '?'))
                                elif node4['k'] == 'assign' and node4['p']['l'] == 0 and not node4['p']['pr'] and not pl4['pr']:
                                    uses.append('return')
                                elif node4['k'] != 'drop':
                                    uses.append('other')
                            if not uses or not all(u in ('return', 'call:branch') or
                                                   (u in ('call:map_err', 'call:map', 'call:and_then') and depth < 2 and adapted_ok(d, depth + 1))
                                                   for u in uses):
                                return False
                        return True
                    ok = adapted_ok(L)
                r.site('%s: result of `%s` -> %s' % (m.path, c['path'], sorted(set(consumers)) or ['dropped']), t['s'],
                       'ok' if ok else 'violation')
                if not ok:
                    r.violation('%s:%s' % (m.path, c['name']), t['s'], m.path,
                                'the io::Result of `%s` is %s instead of being returned or propagated with `?`: a failing writer is '
                                'reported as success (and later writes continue)' % (c['path'], sorted(set(consumers)) or 'dropped'))
    # IOERR-SINK: bytes must go to the caller's writer itself; a local buffering adapter swallows the error of its
    # partial writes: `Write::write` / `write_vectored` report how much was taken; the count must be looked at
    for b in bodies:
        scope = list(group_members(f, b))
        for m in list(scope):
            for pt, t in m.calls():
                c = t.get('callee')
                hb = f.body(c.get('resolved') or c['path']) if c else None
                if hb is not None and hb.d['kind'] != 'Closure' and hb.name != 'to_writer' and hb not in scope \
                        and any('Write' in (ty or '') or 'W' == (ty or '').lstrip('&mut ').strip() for ty in (t.get('arg_tys') or [])):
                    scope += group_members(f, hb)
        for m in scope:
            for pt, t in m.calls():
                c = t.get('callee')
                if not c or c['name'] not in ('write', 'write_vectored') or not (c.get('trait') or '').endswith('io::Write'):
                    continue
                # the usize inside the Result: is it ever read?
                used = False
                work, seen = [t['dest']['l']], set()
                while work and not used:
                    L = work.pop()
                    if L in seen:
                        continue
                    seen.add(L)
                    for pt2, role, pl, node in m.places():
                        if pl['l'] != L or role == 'write' or pt2 == pt:
                            continue
                        if node['k'] == 'call':
                            nm = (node.get('callee') or {}).get('name')
                            if nm in ('branch', 'map_err', 'from_residual', 'into', 'from'):
                                work.append(node['dest']['l'])
                            else:
                                used = True
                        elif node['k'] == 'assign':
                            if node['r']['k'] == 'discr':
                                continue
                            dst = node['p']['l']
                            if node['r']['k'] == 'use' and not node['p']['pr'] and dst != 0:
                                work.append(dst)        # a plain copy / move: follow the value
                            else:
                                used = True             # arithmetic, comparison, stored into a place, returned ...
                        elif node['k'] not in ('drop',):
                            used = True
                r.site('%s: the byte count returned by `%s` is used' % (m.path, c['name']), t['s'], 'ok' if used else 'violation')
                if not used:
                    r.violation('%s:%s:count-ignored' % (m.path, c['name']), t['s'], m.path,
                                '`%s` may accept only part of the buffer; its byte count is discarded, so on a short write the rest of the '
                                'content is silently lost and to_writer still returns Ok (use write_all)' % c['name'])
    # final flush (Drop discards it) unless an explicit, propagated flush post-dominates every write
    tr_source = anchors.trait_path(f, 'Source')
    WRITE_NAMES = {'to_writer', 'write_all', 'write', 'write_fmt', 'write_vectored', 'write_all_vectored'}
    for b in bodies:
        for m in group_members(f, b):
            if m is not b:
                continue
            writes = []
            for pt, t in m.calls():
                c = t.get('callee')
                if not c or c['name'] not in WRITE_NAMES or len(t['args']) < 1:
                    continue
                if c.get('trait') == tr_source or c.get('impl_trait') == tr_source:
                    widx = 1
                elif (c.get('trait') or '').endswith('io::Write') or (c.get('impl_trait') or '').endswith('io::Write'):
                    widx = 0
                else:
                    # foreign serializer taking a writer: the argument whose type is a writer
                    cand = [i for i, ty in enumerate(t['arg_tys']) if 'Write' in ty or ty in ('W', '&mut W')]
                    if len(cand) != 1:
                        continue
                    widx = cand[0]
                if widx >= len(t['args']):
                    continue
                e = m.expr_of_operand(t['args'][widx])
                roots = strip(e, through_calls={'deref', 'deref_mut', 'by_ref', 'borrow_mut', 'as_mut'})
                own = bool(roots) and all(x[0] == 'arg' and x[3] == m.key for x in roots)
                writes.append((pt, t, own, roots))
            for pt, t, own, roots in writes:
                ok = own
                why = ''
                if not own:
                    # adapter: need a propagated flush on the same root post-dominating this write
                    for pt2, t2 in m.calls():
                        c2 = t2.get('callee')
                        if c2 and c2['name'] == 'flush' and t2['args']:
                            r2 = strip(m.expr_of_operand(t2['args'][0]), through_calls={'deref', 'deref_mut', 'by_ref', 'borrow_mut', 'as_mut'})
                            if set(r2) & set(roots) and m.postdominates(pt2, pt):
                                ok = True
                    why = 'writes go to a local adapter (%s) and no propagated flush() post-dominates them' % (
                        roots[0][1] if roots and roots[0][0] == 'call' else 'not the writer parameter')
                r.site('%s: `%s` writes to %s' % (m.path, t['callee']['name'], 'the caller\'s writer' if own else 'a local adapter'),
                       t['s'], 'ok' if ok else 'violation')
                if not ok:
                    r.violation('%s:sink' % m.path, t['s'], m.path,
                                'to_writer %s: the adapter flushes in Drop, which discards the writer\'s error — a failing writer is '
                                'reported as success' % why)
    r.check_floor()
    return r
