use rspack_sources::*;
// Demonstration for defect F11: `line - 1` lookups of 1-based original lines underflow for a wild map that carries line 0
// (first segment with original-line delta -1): panics with "attempt to subtract with overflow" in overflow-checked builds.
#[test]
fn inner_map_with_original_line_zero() {
  let outer = SourceMap::from_json(r#"{"version":3,"sources":["inner.js"],"sourcesContent":["abcdef;\n"],"names":[],"mappings":"AAAA,EAAE"}"#).unwrap();
  let inner = SourceMap::from_json(r#"{"version":3,"sources":["orig.js"],"sourcesContent":["abcdef;\n"],"names":[],"mappings":"AADA"}"#).unwrap();
  let s = SourceMapSource::new(SourceMapSourceOptions {
    value: "abcdef;\n", name: "inner.js", source_map: outer, original_source: Some("abcdef;\n".to_string()),
    inner_source_map: Some(inner), remove_original_source: false,
  });
  let _ = s.map(&MapOptions::default());
}
#[test]
fn inner_map_with_original_line_zero_and_outer_name() {
  let outer = SourceMap::from_json(r#"{"version":3,"sources":["inner.js"],"sourcesContent":["abcdef;\n"],"names":["abc"],"mappings":"AAAAA"}"#).unwrap();
  let inner = SourceMap::from_json(r#"{"version":3,"sources":["orig.js"],"sourcesContent":["abcdef;\n"],"names":[],"mappings":"AADA"}"#).unwrap();
  let s = SourceMapSource::new(SourceMapSourceOptions {
    value: "abcdef;\n", name: "inner.js", source_map: outer, original_source: Some("abcdef;\n".to_string()),
    inner_source_map: Some(inner), remove_original_source: false,
  });
  let _ = s.map(&MapOptions::default());
}
#[test]
fn replace_source_over_map_with_original_line_zero() {
  let map = SourceMap::from_json(r#"{"version":3,"sources":["orig.js"],"sourcesContent":["abcdef;\n"],"names":[],"mappings":"AADA"}"#).unwrap();
  let s = SourceMapSource::new(WithoutOriginalOptions { value: "abcdef;\n", name: "gen.js", source_map: map });
  let mut r = ReplaceSource::new(s);
  r.replace(2, 4, "XY", None);
  let _ = r.map(&MapOptions::default());
  let _ = r.source();
}
