#!/usr/bin/env python3
"""Confirm a seeded change independently in the scratch worktree /tmp/wt/verify, then file it under /verif/seeded/<id>/.
usage: tools/verify_seeded.py <src dir with patch.diff demo.rs notes.md> <id> <property> [<property>...]
Confirms: (1) patch applies and the crate builds, (2) the existing suite is green with the patch,
(3) the demo FAILS with the patch, (4) the demo PASSES without it."""
import json, os, shutil, subprocess, sys, time
V = os.path.dirname(os.path.dirname(os.path.abspath(__file__)))
WT = os.environ.get('RSV_VERIFY_WT', '/tmp/wt/verify')
src, sid, props = sys.argv[1], sys.argv[2], sys.argv[3:]

def run(cmd, **kw):
    return subprocess.run(cmd, cwd=WT, capture_output=True, text=True, **kw)

def clean():
    run(['git', 'checkout', '--', '.'])
    for f in os.listdir(os.path.join(WT, 'tests')):
        if f.startswith('demo_'):
            os.unlink(os.path.join(WT, 'tests', f))

def summary(out):
    return [l for l in out.splitlines() if l.startswith('test result') or 'FAILED' in l or l.startswith('error')][:12]

clean()
log = {}
r = run(['git', 'apply', os.path.abspath(os.path.join(src, 'patch.diff'))])
if r.returncode != 0:
    sys.exit('patch does not apply: ' + r.stderr)
r = run(['cargo', 'test', '--offline', '--workspace', '--no-fail-fast'])
log['suite_with_patch'] = summary(r.stdout + r.stderr)
suite_ok = r.returncode == 0
demo_name = 'demo_%s' % sid.replace('-', '_')
shutil.copy(os.path.join(src, 'demo.rs'), os.path.join(WT, 'tests', demo_name + '.rs'))
r = run(['cargo', 'test', '--offline', '--test', demo_name])
log['demo_with_patch'] = summary(r.stdout + r.stderr)
demo_fails = r.returncode != 0 and 'error[' not in (r.stdout + r.stderr) and 'could not compile' not in (r.stdout + r.stderr)
run(['git', 'checkout', '--', 'src'])
r = run(['cargo', 'test', '--offline', '--test', demo_name])
log['demo_clean'] = summary(r.stdout + r.stderr)
demo_passes = r.returncode == 0
clean()
ok = suite_ok and demo_fails and demo_passes
print(json.dumps({'suite_green_with_patch': suite_ok, 'demo_fails_with_patch': demo_fails, 'demo_passes_clean': demo_passes, 'log': log}, indent=1))
if ok:
    dst = os.path.join(V, 'seeded', sid)
    os.makedirs(dst, exist_ok=True)
    for f in ('patch.diff', 'demo.rs', 'notes.md'):
        if os.path.exists(os.path.join(src, f)):
            shutil.copy(os.path.join(src, f), os.path.join(dst, f))
    meta = {'id': sid, 'breaks': props, 'origin': 'independent sub-agent given only the property text and a scratch worktree',
            'needs_to_manifest': '(see notes.md)', 'confirmed': {
                'how': 'tools/verify_seeded.py in scratch worktree /tmp/wt/verify: git apply; cargo test --offline --workspace; '
                       'cargo test --offline --test <demo> with and without the patch',
                'suite_green_with_patch': suite_ok, 'demo_fails_with_patch': demo_fails, 'demo_passes_clean': demo_passes,
                'log': log, 'at': time.strftime('%Y-%m-%d')}}
    json.dump(meta, open(os.path.join(dst, 'meta.json'), 'w'), indent=1)
    print('filed under', dst)
sys.exit(0 if ok else 1)
