"""PREFIX-SUM: the (piece, offset) pairs of a rope's chunk vector carry running totals.

A `Rope` in its `Full` representation is a vector of `(&str, usize)` pairs whose second component is the byte offset of the
piece inside the rope: 0 for the first piece, and for every later piece the previous offset plus the previous piece's length.
`len()`, `byte_slice`, the unchecked slicing behind `WithIndices::substring`, `lines()` and `get_generated_source_info` all
read those offsets, so a vector that breaks the invariant yields wrong lengths / end columns (C04, C10, C11) and hands
out-of-range or mid-character indices to `get_unchecked` (C19).

What is decided (shape of the code, every construction site of such a pair in the crate):
  * the offset stored with a piece is the constant 0, a total computed from the vector the pair is appended to (`last()` /
    `len()`), or a running accumulator;
  * where it is a running accumulator, the first update of that accumulator after the pair is built adds exactly the length of
    the piece that was stored: `len(P)` for a piece P, `len(X) - s` for `X[s..]`, `e` for `X[..e]`, `e - s` for `X[s..e]`;
  * existing pairs are not copied verbatim (`extend_from_slice` / `append` / `extend` over the pairs themselves) into a vector
    that already received a pair in the same function: the copied offsets are relative to another rope.  (`extend` over an
    adaptor closure builds new pairs; that closure's aggregate is a construction site of its own.)
Offsets of any other form are reported as "unrecognised" in the evidence and are not a violation.
"""
from ..core import RuleResult
from ..ir import walk

PAIR_TY = ('(&str, usize)', "(&'a str, usize)")


def _is_pair_ty(ty):
    ty = ty.replace("'a ", '').replace("'_ ", '')
    return ty in ('(&str, usize)',)


def nz(e):
    """normal form of an expression tree: borrows, derefs and casts dropped, callee names shortened, checked arithmetic folded"""
    if not isinstance(e, tuple) or not e:
        return e
    k = e[0]
    if k in ('ref', 'deref', 'cast', 'payload'):
        return nz(e[1])
    if k == 'call':
        name = e[1].rsplit('::', 1)[-1]
        args = tuple(nz(a) for a in e[2])
        if name in ('deref', 'deref_mut', 'as_ref', 'borrow', 'clone', 'as_str', 'into', 'from') and len(args) == 1:
            return args[0]
        return ('call', name, args)
    if k == 'field':
        base = nz(e[1])
        if base and base[0] == 'bin' and base[1].endswith('WithOverflow') and e[2] == '0':
            return ('bin', base[1][:-len('WithOverflow')], base[2], base[3])
        if base and base[0] == 'agg' and base[1] == 'tuple' and e[2].isdigit() and int(e[2]) < len(base[4]):
            return base[4][int(e[2])]
        return ('field', base, e[2])
    if k == 'bin':
        op = e[1][:-len('Unchecked')] if e[1].endswith('Unchecked') else e[1]
        return ('bin', op, nz(e[2]), nz(e[3]))
    if k == 'agg':
        return ('agg', e[1], (e[2] or '').rsplit('::', 1)[-1], e[3], tuple(nz(a) for a in e[5]))
    if k == 'phi':
        alts = []
        for a in e[1]:
            n = nz(a)
            if n not in alts:
                alts.append(n)
        return alts[0] if len(alts) == 1 else ('phi', tuple(alts))
    if k == 'upvar':
        return ('upvar', e[2])
    if k == 'arg':
        return ('arg', e[1])
    if k == 'downcast':
        return ('downcast', nz(e[1]), e[2])
    if k == 'un':
        return ('un', e[1], nz(e[2]))
    return e


def _lens_of(p):
    """symbolic byte lengths of a piece expression (normal form): list of alternatives that are all equal to its length"""
    if p and p[0] == 'phi':
        return None
    out = [('call', 'len', (p,))]
    if p and p[0] == 'call' and p[1] in ('index', 'get_unchecked', 'index_mut') and len(p[2]) == 2:
        x, rg = p[2]
        if rg and rg[0] == 'agg':
            nm, ops = rg[2], rg[4]
            if nm == 'RangeFrom' and len(ops) == 1:
                out.append(('bin', 'Sub', ('call', 'len', (x,)), ops[0]))
            elif nm == 'RangeTo' and len(ops) == 1:
                out.append(ops[0])
            elif nm == 'Range' and len(ops) == 2:
                out.append(('bin', 'Sub', ops[1], ops[0]))
            elif nm == 'RangeFull':
                out.append(('call', 'len', (x,)))
    return out


def _length_matches(p, e):
    """does the increment e equal the length of piece p (p may be a choice between pieces: then for every alternative)"""
    if p and p[0] == 'phi':
        if e == ('call', 'len', (p,)):
            return True
        return all(_length_matches(a, e) for a in p[1])
    return e in _lens_of(p)


def _acc_id(b, place):
    """identity of a mutable accumulator a place denotes: ('L', local) for a local with several definitions, ('U', name) for a
    by-reference capture of the enclosing function's variable; None for anything else"""
    if not place['pr']:
        if len(b.defs(place['l'])) > 1 and not b.is_arg(place['l']):
            return ('L', place['l'])
        ds = b.whole_defs(place['l'])
        if len(ds) == 1 and ds[0][1] == 'assign' and ds[0][2]['r']['k'] == 'use' and ds[0][2]['r']['o']['k'] in ('copy', 'move'):
            return _acc_id(b, ds[0][2]['r']['o']['p'])
        return None
    e = nz(b.expr_of_place(place))
    if e and e[0] == 'upvar':
        return ('U', e[1])
    return None


def _writes(b, acc):
    """points that assign the accumulator: {(bb, idx): rvalue}"""
    out = {}
    for bb in range(len(b.blocks)):
        for i, s in enumerate(b.stmts(bb)):
            if s['k'] == 'assign' and _acc_id_w(b, s['p']) == acc:
                out[(bb, i)] = s['r']
    return out


def _acc_id_w(b, place):
    if not place['pr']:
        return ('L', place['l']) if len(b.defs(place['l'])) > 1 and not b.is_arg(place['l']) else None
    e = nz(b.expr_of_place(place))
    if e and e[0] == 'upvar':
        return ('U', e[1])
    return None


def _first_writes_after(b, pt, writes):
    """the writes of the accumulator that are first on some path starting after pt"""
    found, seen, work = set(), set(), []
    bb, i = pt
    def scan(bb_, start):
        idxs = sorted(j for (x, j) in writes if x == bb_ and j >= start)
        return idxs[0] if idxs else None
    j = scan(bb, i + 1)
    if j is not None:
        return {(bb, j)}
    work = [s for s in b.succs(bb) if not b.is_cleanup(s)]
    while work:
        x = work.pop()
        if x in seen:
            continue
        seen.add(x)
        j = scan(x, 0)
        if j is not None:
            found.add((x, j))
            continue
        work.extend(s for s in b.succs(x) if not b.is_cleanup(s))
    return found


def _increment(b, acc, rv):
    """the expression added to the accumulator by this write, or None if the write is not `acc = acc + E`"""
    if rv['k'] == 'use' and rv['o']['k'] in ('copy', 'move'):
        p = rv['o']['p']
        if len(p['pr']) == 1 and isinstance(p['pr'][0], dict) and p['pr'][0].get('f') == 0:
            ds = b.whole_defs(p['l'])
            if len(ds) == 1 and ds[0][1] == 'assign':
                return _increment(b, acc, ds[0][2]['r'])
        if not p['pr']:
            ds = b.whole_defs(p['l'])
            if len(ds) == 1 and ds[0][1] == 'assign' and len(b.defs(p['l'])) == 1:
                return _increment(b, acc, ds[0][2]['r'])
        return None
    if rv['k'] == 'bin' and rv['op'] in ('Add', 'AddWithOverflow', 'AddUnchecked'):
        for x, y in ((rv['a'], rv['b']), (rv['b'], rv['a'])):
            if x['k'] in ('copy', 'move') and _acc_id(b, x['p']) == acc:
                return nz(b.expr_of_operand(y))
    return None


def rule_prefix_sum(ctx, config='dev'):
    f = ctx.facts(config)
    r = RuleResult('PREFIX-SUM', 'the (piece, offset) pairs of a rope chunk vector carry running totals: the offset stored with a piece '
                                 'is 0, a total of the vector it is appended to, or an accumulator whose next update adds exactly the '
                                 'length of the stored piece; pairs are not bulk-copied into a vector that already holds one')
    r.floor = 12
    unrec = 0
    for b in f.body_list:
        if b.promoted is not None:
            continue
        pair_pts = []
        for bb in range(len(b.blocks)):
            if b.is_cleanup(bb):
                continue
            for i, s in enumerate(b.stmts(bb)):
                if s['k'] == 'assign' and s['r']['k'] == 'agg' and s['r'].get('ak') == 'tuple' and _is_pair_ty(s['p']['ty']) \
                        and len(s['r']['ops']) == 2:
                    pair_pts.append(((bb, i), s))
        for pt, s in pair_pts:
            piece_o, off_o = s['r']['ops']
            if off_o['k'] == 'const':
                if off_o.get('int') == 0:
                    r.site('%s: piece stored at offset 0' % b.path, s['s'], 'ok')
                else:
                    unrec += 1
                    r.info('%s (%s): constant non-zero offset, not decided' % (b.path, s['s']))
                continue
            acc = _acc_id(b, off_o['p']) if off_o['k'] in ('copy', 'move') else None
            off_e = nz(b.expr_of_operand(off_o))
            if acc is None:
                total = any(x[0] == 'call' and x[1] in ('last', 'len', 'map_or', 'sum') for x in walk(off_e) if isinstance(x, tuple))
                if total:
                    r.site('%s: piece stored at a computed total' % b.path, s['s'], 'ok')
                else:
                    unrec += 1
                    r.info('%s (%s): offset of an unrecognised form, not decided' % (b.path, s['s']))
                continue
            writes = _writes(b, acc)
            firsts = _first_writes_after(b, pt, writes)
            piece = nz(b.expr_of_operand(piece_o))
            bad = None
            for w in sorted(firsts):
                inc = _increment(b, acc, writes[w])
                if inc is None:
                    continue                        # a reset / recomputation, not an increment: nothing to compare
                if not _length_matches(piece, inc):
                    bad = w
            r.site('%s: accumulator advanced by the length of the stored piece' % b.path, s['s'], 'violation' if bad else 'ok')
            if bad:
                r.violation('%s:advance' % b.path, s['s'], b.path,
                            'a piece is stored at the running offset, but the offset is then advanced by something other than the '
                            'length of that very piece: every later piece of the vector starts at a wrong offset, so len(), '
                            'byte_slice and the unchecked slicing behind substring() read wrong positions')
        # bulk copies into a vector that already received a pair
        pushes = [pt for pt, t in b.calls() if t.get('callee') and t['callee']['name'] == 'push' and t['arg_tys']
                  and 'Vec<(&' in t['arg_tys'][0] and 'str, usize)' in t['arg_tys'][0]]
        for pt, t in b.calls():
            c = t.get('callee')
            if c and c['name'] in ('extend_from_slice', 'extend', 'append', 'extend_from_within') and t['arg_tys'] and \
                    'Vec<(&' in t['arg_tys'][0] and 'str, usize)' in t['arg_tys'][0]:
                if c['name'] == 'extend' and (len(t['arg_tys']) < 2 or 'Map<' in t['arg_tys'][1] or 'closure' in t['arg_tys'][1]):
                    continue                    # pairs built anew by an adaptor closure: its aggregate is a site of its own
                after = [p for p in pushes if b.dominates(p, pt)]
                r.site('%s: bulk copy of (piece, offset) pairs' % b.path, t['s'], 'violation' if after else 'ok')
                if after:
                    r.violation('%s:bulk' % b.path, t['s'], b.path,
                                'pairs are copied wholesale into a vector that already holds a piece: the copied offsets are '
                                'relative to the rope they came from, not to this vector')
    if unrec:
        r.info('%d pair construction(s) with an offset of unrecognised form' % unrec)
    r.check_floor()
    return r


# ------------------------------------------------------------------------------------------------------------------------------
# LAST-PIECE: while some observer reads the *content* of the last piece, every mutator keeps the last piece non-empty

_CONTENT_FREE = ('len', 'last', 'deref', 'as_ref', 'borrow', 'clone', 'iter', 'into_iter', 'map_or', 'map', 'unwrap_or',
                 'unwrap_or_default', 'copied', 'cloned', 'is_some', 'is_none', 'branch', 'from_residual')


def _nzwalk(e):
    """all sub-expressions of a normalised tree"""
    if not isinstance(e, tuple):
        return
    yield e
    for x in e[1:]:
        if isinstance(x, tuple):
            if x and isinstance(x[0], str):
                yield from _nzwalk(x)
            else:
                for y in x:
                    yield from _nzwalk(y)


def _has_last_piece(e):
    """does the (normalised) expression denote the `.0` of the pair returned by `last()`"""
    for x in _nzwalk(e):
        if isinstance(x, tuple) and x and x[0] == 'field' and x[2] == '0':
            inner = x[1]
            while isinstance(inner, tuple) and inner and inner[0] in ('field', 'downcast'):
                if inner[0] == 'field' and inner[2] != '0':
                    break
                inner = inner[1]
            if isinstance(inner, tuple) and inner and inner[0] == 'call' and inner[1] == 'last':
                return True
    return False


def _last_piece_readers(f):
    """bodies that hand the text of the last piece of a chunk vector to something other than `len`"""
    out = []
    for b in f.body_list:
        if b.promoted is not None:
            continue
        lasts = [pt for pt, t in b.calls() if t.get('callee') and t['callee']['name'] == 'last' and t['arg_tys']
                 and 'str, usize)' in t['arg_tys'][0]]
        if not lasts:
            continue
        for pt, t in b.calls():
            c = t.get('callee')
            if not c or c['name'] in _CONTENT_FREE:
                continue
            for a in t['args']:
                if _has_last_piece(nz(b.expr_of_operand(a))):
                    out.append((b, t))
                    break
    return out


def _piece_nonempty_guarded(b, pt, piece):
    """is pt dominated by the 'not empty' edge of `is_empty()` / `len() ? 0` applied to this very piece"""
    dom = b.dom()
    for d in dom.get(pt[0], set()) | {pt[0]}:
        t = b.term(d)
        if t['k'] != 'switch' or t['d']['k'] not in ('copy', 'move') or t['d']['p']['pr']:
            continue
        e = nz(b.expr_of_local(t['d']['p']['l']))
        kind, subj = None, None
        neg = False
        while e and e[0] == 'un' and e[1] == 'Not':
            neg, e = not neg, e[2]
        if e and e[0] == 'call' and e[1] == 'is_empty' and e[2]:
            kind, subj = ('not_empty' if neg else 'is_empty'), e[2][0]
        elif e and e[0] == 'bin' and e[1] in ('Eq', 'Ne', 'Gt', 'Lt'):
            for side, other in ((e[2], e[3]), (e[3], e[2])):
                if side and side[0] == 'call' and side[1] == 'len' and other and other[0] == 'const' and other[1] == 0:
                    base = 'is_empty' if e[1] == 'Eq' else 'not_empty'
                    kind = ('not_empty' if base == 'is_empty' else 'is_empty') if neg else base
                    subj = side[2][0]
        if kind is None or subj != piece:
            continue
        zero_t = [x[1] for x in t['targets'] if x[0] == 0]
        other_t = [t['otherwise']] + [x[1] for x in t['targets'] if x[0] != 0]
        good = zero_t if kind == 'is_empty' else [x for x in other_t if x not in zero_t]
        for g in good:
            if (g == pt[0] or g in dom.get(pt[0], set())) and len(b.preds(g)) == 1 and d != pt[0]:
                return True
    return False


def rule_last_piece(ctx, config='dev'):
    f = ctx.facts(config)
    r = RuleResult('LAST-PIECE', 'while an observer reads the text of the last piece of a rope (ends_with), every function that '
                                 'grows a rope in place stores a fresh piece as the last one only under a test that it is not empty')
    readers = _last_piece_readers(f)
    if not readers:
        r.info('no observer reads the text of the last piece: nothing to maintain')
        r.site('(crate): no reader of the last piece', '(crate)', 'ok')
        return r
    for rb, t in readers:
        r.site('%s: reads the text of the last piece (%s)' % (rb.path, t['callee']['name']), t['s'], 'ok')
    n = 0
    for b in f.body_list:
        if b.promoted is not None or b.arg_count < 1:
            continue
        if not any(b.local_ty(a).replace("'a", "'_").startswith("&mut rope::Rope<") for a in range(1, b.arg_count + 1)):
            continue
        pts = []
        for bb in range(len(b.blocks)):
            if b.is_cleanup(bb):
                continue
            for i, s in enumerate(b.stmts(bb)):
                if s['k'] == 'assign' and s['r']['k'] == 'agg' and s['r'].get('ak') == 'tuple' and _is_pair_ty(s['p']['ty']) \
                        and len(s['r']['ops']) == 2:
                    pts.append(((bb, i), s))
        for pt, s in pts:
            piece_o, off_o = s['r']['ops']
            piece = nz(b.expr_of_operand(piece_o))
            element = any(isinstance(x, tuple) and x and x[0] == 'call' and x[1] in ('next', 'index', 'get', 'get_unchecked',
                                                                                       'last', 'first', 'pop')
                          for x in _nzwalk(piece))
            if element:
                r.site('%s: piece taken over from another chunk vector' % b.path, s['s'], 'ok')
                n += 1
                continue
            first = off_o['k'] == 'const' and off_o.get('int') == 0
            followed = any(q != pt and (q[0] == pt[0] and q[1] > pt[1] or (q[0] != pt[0] and b.can_reach(pt[0], q[0])))
                           for q, _ in pts)
            if first and followed:
                r.site('%s: first piece, another piece follows' % b.path, s['s'], 'ok')
                n += 1
                continue
            ok = _piece_nonempty_guarded(b, pt, piece)
            r.site('%s: fresh piece stored as the last one under a non-emptiness test' % b.path, s['s'], 'ok' if ok else 'violation')
            n += 1
            if not ok:
                r.violation('%s:fresh-tail' % b.path, s['s'], b.path,
                            'a piece that may be empty becomes the last piece of the rope, while %s decides by looking at the last '
                            'piece only: a text that ends in a line break is then reported as not ending in one (the replay of a '
                            'cached source and the line bookkeeping of composites ask exactly that)' % readers[0][0].path,
                            reader=readers[0][0].path)
    r.floor = len(readers) + 6
    r.check_floor()
    return r


# ------------------------------------------------------------------------------------------------------------------------------
# UNCHECKED-SIBLING: the unchecked slicer locates and cuts pieces exactly like its checked sibling

def _closure_ret(f, b, e):
    """normalised return expression of a closure literal / fn item handed to an adaptor"""
    if e and e[0] == 'agg' and e[1] == 'closure':
        cands = [c for c in f.closures_of(b) if c.path.endswith(e[2])]
        if len(cands) == 1:
            return nz(cands[0].expr_of_local(0))
    return e


def _anon(e, b_path):
    """make a normalised expression comparable across two functions: drop body-specific names"""
    if not isinstance(e, tuple):
        return e
    if e and e[0] == 'arg':
        return ('arg', e[1])
    if e and e[0] == 'upvar':
        return ('upvar', e[1])
    if e and e[0] == 'agg':
        return ('agg', e[1], 'closure' if e[1] == 'closure' else e[2], e[3]) + tuple(_anon(x, b_path) for x in e[4:])
    if e and e[0] == 'call':
        name = {'get_unchecked': 'get', 'index': 'get', 'get_unchecked_mut': 'get'}.get(e[1], e[1])
        return ('call', name) + tuple(_anon(x, b_path) for x in e[2:])
    if e and e[0] == 'bin' and len(e) > 4:
        e = e[:4]
    return tuple(_anon(x, b_path) if isinstance(x, tuple) else x for x in e)


def _slicer_signature(f, b):
    sig = []
    for m in [b] + f.closures_of(b):
        for pt, t in m.calls():
            c = t.get('callee')
            if not c:
                continue
            nm = c['name']
            tys = t.get('arg_tys') or []
            if nm == 'binary_search_by' and len(t['args']) == 2:
                sig.append(('search', _anon(nz(m.expr_of_operand(t['args'][0])), b.path),
                            _anon(_closure_ret(f, b, nz(m.expr_of_operand(t['args'][1]))), b.path)))
            elif nm == 'unwrap_or_else' and len(t['args']) == 2 and any(
                    isinstance(x, tuple) and x and x[0] == 'call' and x[1] == 'binary_search_by' for x in _nzwalk(nz(m.expr_of_operand(t['args'][0])))):
                sig.append(('miss', _anon(_closure_ret(f, b, nz(m.expr_of_operand(t['args'][1]))), b.path)))
            elif nm in ('get', 'get_unchecked', 'index') and len(t['args']) == 2 and tys:
                recv_ty = tys[0].replace("'a ", '').replace("'_ ", '')
                idx = nz(m.expr_of_operand(t['args'][1]))
                if 'str, usize)' in recv_ty:
                    sig.append(('piece', _anon(idx, b.path)))
                elif recv_ty.strip('&') == 'str' and idx and idx[0] == 'agg':
                    sig.append(('cut', _anon(idx, b.path)))
    return sorted(sig, key=repr)


def rule_unchecked_sibling(ctx, config='dev'):
    f = ctx.facts(config)
    r = RuleResult('UNCHECKED-SIBLING', 'the range-unchecked slicer of a rope (`pub unsafe fn` that indexes the piece vector and cuts pieces '
                                        'with get_unchecked) searches, picks and cuts pieces by the same expressions as its checked sibling '
                                        '(the safe slicer of the same type that validates the range): piece searches (receiver and '
                                        'comparator), the miss adjustment, the index of every piece access and the range of every cut agree')
    unchecked, checked = [], []
    for b in f.body_list:
        if b.promoted is not None or b.d['kind'] == 'Closure' or b.d.get('impl_adt') != 'rope::Rope':
            continue
        grp = [b] + f.closures_of(b)
        names = {(t.get('callee') or {}).get('name') for m in grp for _, t in m.calls()}
        if 'binary_search_by' not in names:
            continue
        piece_access = any((t.get('callee') or {}).get('name') in ('get_unchecked', 'index', 'get') and (t.get('arg_tys') or [''])[0].find('str, usize)') >= 0
                           for m in grp for _, t in m.calls())
        if not piece_access:
            continue
        builds = any(s['k'] == 'assign' and s['r']['k'] == 'agg' and s['r'].get('ak') == 'tuple' and _is_pair_ty(s['p']['ty'])
                     for m in grp for _, s in m.points())
        if not builds:
            continue                    # a reader (get_byte), not a slicer
        (unchecked if b.d.get('unsafe_fn') else checked).append(b)
    if len(unchecked) != 1 or len(checked) != 1:
        r.info('slicer pair not found (unchecked: %d, checked: %d): nothing to compare' % (len(unchecked), len(checked)))
        r.site('(crate): no checked / unchecked slicer pair', '(crate)', 'ok')
        return r
    u, c = unchecked[0], checked[0]
    su, sc = _slicer_signature(f, u), _slicer_signature(f, c)
    from collections import Counter
    cu, cc = Counter(map(repr, su)), Counter(map(repr, sc))
    only_u = list((cu - cc).elements())
    only_c = list((cc - cu).elements())
    for k in sorted(set(cu) | set(cc)):
        r.site('%s / %s: %s' % (u.name, c.name, k[:100]), u.span(), 'ok' if cu[k] == cc[k] else 'violation')
    if only_u or only_c:
        r.violation('%s:%s' % (u.path, c.name), u.span(), u.path,
                    'the unchecked slicer and its checked sibling locate or cut pieces differently (only in the unchecked one: %s; only in '
                    'the checked one: %s): for a valid range one of the two picks the wrong piece or cuts at the wrong offset, and the '
                    'unchecked one does so with get_unchecked' % ([x[:160] for x in only_u][:3], [x[:160] for x in only_c][:3]))
    r.floor = 6
    r.check_floor()
    return r


# ---------------------------------------------------------------- PREFIX-EXHAUST (round 10)
def rule_prefix_exhaust(ctx, config='dev'):
    """Rope::starts_with: once every piece of the *argument* has been matched the answer is `true`"""
    from .offsets import stretch
    f = ctx.facts(config)
    r = RuleResult('PREFIX-EXHAUST',
                   'Rope::starts_with(value) is a prefix test for every division of either rope into pieces: on each path where the '
                   'iteration over the pieces of the ARGUMENT ends without a mismatch, the function returns the constant `true` (not a '
                   'test of what is left of the receiver - that would be equality). ReplaceSource advances the original column of a '
                   'cut chunk exactly where this test succeeds')
    bodies = [b for b in f.body_list if b.promoted is None and b.d['kind'] != 'Closure' and b.d.get('impl_adt', '').endswith('rope::Rope')
              and b.path.split('::')[-1] == 'starts_with' and not b.d.get('impl_trait')]
    if len(bodies) != 1:
        r.info('not decided: no single inherent `Rope::starts_with` (the prefix test ReplaceSource uses)')
        return r
    b = bodies[0]
    n = 0
    for pt, t in b.calls():
        c = t.get('callee') or {}
        if c.get('name') != 'next' or not t['args']:
            continue
        e = b.expr_of_operand(t['args'][0])
        args = {x[1] for x in walk(e) if x[0] == 'arg'}
        if args != {2}:
            continue            # iterates the receiver (or both): exhaustion of the receiver is a different question
        # the None edge of the match on the result
        nb = t.get('t')
        none_targets = []
        for bb in stretch(b, nb) if nb is not None else []:
            tt = b.term(bb)
            if tt['k'] == 'switch':
                zero = [x[1] for x in tt['targets'] if x[0] == 0]
                if zero:
                    none_targets = zero
                else:                       # `[[1, some]] else none`
                    none_targets = [tt['otherwise']]
                break
        if not none_targets:
            continue
        n += 1
        verdict, what, site = None, None, t['s']
        for bb in stretch(b, none_targets[0]):
            for s in b.stmts(bb):
                if s['k'] == 'assign' and s['p']['l'] == 0 and not s['p']['pr']:
                    o = s['r'].get('o') if s['r']['k'] == 'use' else None
                    verdict = bool(o and o['k'] == 'const' and o.get('bool') is True)
                    what, site = ('the constant true' if verdict else 'a computed value'), s['s']
                    break
            if verdict is not None:
                break
            tt = b.term(bb)
            if tt['k'] == 'call' and tt['dest']['l'] == 0 and not tt['dest']['pr']:
                verdict, what, site = False, 'the result of `%s`' % ((tt.get('callee') or {}).get('path') or 'a call'), tt['s']
                break
        if verdict is None:
            r.site('%s: argument pieces exhausted - result not found on the straight-line path (not decided)' % b.path, t['s'], 'ok',
                   note='not decided')
            continue
        r.site('%s: argument pieces exhausted -> returns %s' % (b.path, what), site, 'ok' if verdict else 'violation')
        if not verdict:
            r.violation('%s:exhausted' % b.path, site, b.path,
                        'when all pieces of the argument have been matched the function returns %s instead of `true`: for a receiver '
                        'longer than the argument (the normal case of a prefix test) the answer depends on how the argument is divided '
                        'into pieces - "abcd".starts_with(["ab","c"]) is false - so ReplaceSource does not advance the original column '
                        'of a cut chunk whose text arrives as a multi-piece rope (a replayed CachedSource)' % what)
    if n == 0:
        r.info('not decided: no loop over the pieces of the argument found in Rope::starts_with')
    return r
